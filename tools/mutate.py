#!/usr/bin/env python3
"""tools/mutate.py [PROP ...]: a small operator-mutation campaign against the *bounded* layers (self-test of the checks, not a check).

For every property, simple mutants (comparison boundary flips, +/- swaps, small integer constants +-1, argmax<->argmin, min<->max) of the
functions the property is anchored in are applied one at a time to a scratch copy of /repo/src (under /var/tmp, removed afterwards) and
the property's bounded layer is run on it.  Survivors are listed for review in out/mutants_<PROP>.tsv: they are equivalent mutants,
mutants outside the property, or holes in the sampler."""
import ast, os, shutil, subprocess, sys, multiprocessing as mp, json, time

ROOT = os.path.dirname(os.path.dirname(os.path.abspath(__file__)))
SRC = "/repo/src"
PKG = "kneeliverse"
TARGETS = {
    "C01": [("rdp.py", ["rdp", "_rdp_fixed", "rdp_fixed", "_grdp", "grdp", "mp_grdp", "min_point_rdp", "compute_removed_points"])],
    "C04": [("rdp.py", ["rdp"])],
    "C05": [("rdp.py", ["_rdp_fixed", "rdp_fixed", "order_triangle", "order_area", "order_segment"])],
    "C06": [("rdp.py", ["_grdp", "grdp", "mp_grdp", "min_point_rdp"])],
    "C07": [("rdp.py", ["mapping", "compute_removed_points"])],
    "C02": [("multi_knee.py", ["multi_knee"])],
    "C03": [("menger.py", ["knee", "menger_curvature"]), ("curvature.py", ["knee"]), ("lmethod.py", ["knee", "get_knee"]), ("dfdt.py", ["knee", "get_knee_gradient"])],
    "C09": [("menger.py", ["knee"]), ("curvature.py", ["knee"]), ("lmethod.py", ["knee", "get_knee"]), ("dfdt.py", ["knee", "get_knee_gradient"])],
    "C10": [("zmethod.py", ["getPoints", "knees", "map_index"])],
    "C11": [("clustering.py", ["single_linkage", "complete_linkage", "centroid_linkage", "average_linkage"])],
    "C12": [("postprocessing.py", ["filter_clusters", "filter_clusters_corners", "rank_corners_triangle"]), ("knee_ranking.py", ["smooth_ranking", "rank"])],
    "C13": [("postprocessing.py", ["filter_worst_knees", "filter_corner_knees", "select_corner_knees"])],
    "C14": [("postprocessing.py", ["add_points_even", "add_points_even_knees"])],
    "C15": [("evaluation.py", ["compute_global_cost", "compute_cost", "compute_partial_cost"])],
    "C16": [("metrics.py", None), ("linear_fit.py", ["linear_fit", "linear_fit_points", "linear_transform", "linear_transform_points", "linear_hv_residuals",
                                                      "linear_residuals", "linear_fit_residuals", "linear_r2", "linear_fit_transform"])],
    "C17": [("linear_fit.py", ["shortest_distance_points", "perpendicular_distance_points", "perpendicular_distance_index"]), ("menger.py", ["menger_curvature"]),
            ("knee_ranking.py", ["rect_overlap", "rect", "rank"])],
    "C18": [("convex_hull.py", None)],
    "C19": [("evaluation.py", ["cm", "accuracy", "f1score", "mcc", "mae", "mse", "rmse", "rmspe"])],
}


class Sites(ast.NodeVisitor):
    def __init__(self, funcs):
        self.funcs, self.sites, self.cur = funcs, [], None

    def visit_FunctionDef(self, n):
        if self.cur is None and (self.funcs is None or n.name in self.funcs):
            self.cur = n.name
            self.generic_visit(n)
            self.cur = None

    def add(self, n, kind, new):
        self.sites.append((self.cur, n.lineno, n.col_offset, kind, new))

    def visit_Compare(self, n):
        if self.cur and len(n.ops) == 1:
            sw = {ast.Lt: "<=", ast.LtE: "<", ast.Gt: ">=", ast.GtE: ">"}
            for k, v in sw.items():
                if isinstance(n.ops[0], k):
                    self.add(n, "cmp", v)
        self.generic_visit(n)

    def visit_BinOp(self, n):
        if self.cur:
            if isinstance(n.op, ast.Add):
                self.add(n, "binop", "-")
            elif isinstance(n.op, ast.Sub):
                self.add(n, "binop", "+")
        self.generic_visit(n)

    def visit_Constant(self, n):
        if self.cur and isinstance(n.value, int) and not isinstance(n.value, bool) and 0 <= n.value <= 3:
            self.add(n, "const", str(n.value + 1))
            if n.value > 0:
                self.add(n, "const", str(n.value - 1))

    def visit_Attribute(self, n):
        if self.cur and n.attr in ("argmax", "argmin", "max", "min"):
            self.add(n, "attr", {"argmax": "argmin", "argmin": "argmax", "max": "min", "min": "max"}[n.attr])
        self.generic_visit(n)


class Apply(ast.NodeTransformer):
    def __init__(self, site):
        self.site, self.done = site, False

    def match(self, n):
        return getattr(n, "lineno", None) == self.site[1] and getattr(n, "col_offset", None) == self.site[2]

    def visit_Compare(self, n):
        self.generic_visit(n)
        if self.site[3] == "cmp" and self.match(n) and not self.done:
            n.ops = [{"<": ast.Lt(), "<=": ast.LtE(), ">": ast.Gt(), ">=": ast.GtE()}[self.site[4]]]
            self.done = True
        return n

    def visit_BinOp(self, n):
        self.generic_visit(n)
        # chained operators share their start position: the site is the one whose operator differs from the replacement
        if self.site[3] == "binop" and self.match(n) and not self.done and isinstance(n.op, ast.Add if self.site[4] == "-" else ast.Sub):
            n.op = ast.Sub() if self.site[4] == "-" else ast.Add()
            self.done = True
        return n

    def visit_Constant(self, n):
        if self.site[3] == "const" and self.match(n) and not self.done:
            self.done = True
            return ast.copy_location(ast.Constant(int(self.site[4])), n)
        return n

    def visit_Attribute(self, n):
        self.generic_visit(n)
        if self.site[3] == "attr" and self.match(n) and not self.done:
            n.attr = self.site[4]
            self.done = True
        return n


def run_one(job):
    prop, fname, site, k = job
    wd = "/var/tmp/mut/%s_%d" % (prop, k)
    shutil.rmtree(wd, ignore_errors=True)
    shutil.copytree(SRC, wd + "/src")
    p = os.path.join(wd, "src", PKG, fname)
    tree = ast.parse(open(p).read())
    a = Apply(site)
    tree = a.visit(tree)
    ast.fix_missing_locations(tree)
    open(p, "w").write(ast.unparse(tree))
    env = dict(os.environ, PYTHONPATH="%s/src:%s" % (wd, ROOT))
    out = wd + "/o.json"
    t0 = time.time()
    if os.environ.get("MUT_FULL"):
        # second stage: the deductive layer of the registered check on the mutated copy (KVC_REPO), without the bounded layer
        r = subprocess.run([os.path.join(ROOT, "check"), prop, "--no-bounded"], env=dict(os.environ, KVC_REPO=wd), capture_output=True, text=True, timeout=3000)
        und = r.stdout.count("\nUNDECIDED") + r.stdout.startswith("UNDECIDED")
        res = "killed" if r.returncode == 1 else ("reacted" if und else "SURVIVED")
        shutil.rmtree(wd, ignore_errors=True)
        return prop, fname, site, res, "deductive: rc=%d undecided=%d" % (r.returncode, und), round(time.time() - t0, 1)
    try:
        r = subprocess.run(["/venv/bin/python", "-B", os.path.join(ROOT, "rt", "c%s.py" % prop[1:]), "--tier", "quick", "--seed", "1", "--out", out],
                           env=env, capture_output=True, text=True, timeout=600)
        try:
            nv = len(json.load(open(out)).get("violations", []))
        except Exception:
            nv = -1
        res = "killed" if (nv > 0 or r.returncode not in (0,)) else "SURVIVED"
        detail = "rc=%d violations=%d" % (r.returncode, nv)
    except subprocess.TimeoutExpired:
        res, detail = "killed", "timeout (non-termination)"
    shutil.rmtree(wd, ignore_errors=True)
    return prop, fname, site, res, detail, round(time.time() - t0, 1)


def main():
    props = sys.argv[1:] or sorted(TARGETS)
    only = None
    if os.environ.get("MUT_FULL"):
        # only the survivors of the first stage
        only = set()
        for prop in props:
            try:
                for l in open(os.path.join(ROOT, "out", "mutants_%s.tsv" % prop)):
                    f = l.rstrip("\n").split("\t")
                    if f[1] == "SURVIVED":
                        only.add((prop, f[2], f[3]))
            except OSError:
                pass
    jobs = []
    for prop in props:
        k = 0
        for fname, funcs in TARGETS[prop]:
            v = Sites(funcs)
            v.visit(ast.parse(open(os.path.join(SRC, PKG, fname)).read()))
            for site in v.sites:
                if only is None or (prop, "%s:%d:%d" % (fname, site[1], site[2]), "%s->%s" % (site[3], site[4])) in only:
                    jobs.append((prop, fname, site, k))
                k += 1
    print("%d mutants" % len(jobs), flush=True)
    os.makedirs("/var/tmp/mut", exist_ok=True)
    res = {}
    with mp.Pool(int(os.environ.get("MUT_PAR", "8"))) as pool:
        for prop, fname, site, r, detail, dt in pool.imap_unordered(run_one, jobs):
            res.setdefault(prop, []).append((fname, site, r, detail, dt))
    shutil.rmtree("/var/tmp/mut", ignore_errors=True)
    for prop in sorted(res):
        rows = sorted(res[prop], key=lambda t: (t[0], t[1][1], t[1][2]))
        with open(os.path.join(ROOT, "out", "mutants_%s%s.tsv" % (prop, "_full" if os.environ.get("MUT_FULL") else "")), "w") as f:
            for fname, site, r, detail, dt in rows:
                f.write("%s\t%s\t%s:%d:%d\t%s->%s\t%s\t%s\t%ss\n" % (prop, r, fname, site[1], site[2], site[3], site[4], site[0], detail, dt))
        n = len(rows)
        s = sum(1 for x in rows if x[2] == "SURVIVED")
        rc = sum(1 for x in rows if x[2] == "reacted")
        print("%s: %d mutants, %d killed, %d reacted (obligation no longer discharged), %d survived" % (prop, n, n - s - rc, rc, s), flush=True)


if __name__ == "__main__":
    main()
