#!/bin/sh
# tools/harvest_seed.sh <PROP>: verify the sub-agent's seeded changes in its scratch worktree and keep the confirmed ones
P=$1; WT=/tmp/wt_$P
[ -d $WT/seeded ] || { echo "no seeded dir for $P"; exit 0; }
cd $WT || exit 1
git checkout -q -- src 2>/dev/null
for d in $WT/seeded/*/; do
  name=$(basename $d)
  [ -f $d/patch.diff ] && [ -f $d/demo.py ] || { echo "$P/$name: incomplete"; continue; }
  git checkout -q -- src
  PYTHONPATH=$WT/src timeout 600 /venv/bin/python $d/demo.py >/tmp/h_clean.txt 2>&1; rc_clean=$?
  if ! git apply --check $d/patch.diff 2>/dev/null; then echo "$P/$name: patch does not apply"; continue; fi
  git apply $d/patch.diff
  PYTHONPATH=$WT/src timeout 600 /venv/bin/python $d/demo.py >/tmp/h_mut.txt 2>&1; rc_mut=$?
  tests=$(PYTHONPATH=$WT/src timeout 900 /venv/bin/python -m pytest -q -p no:cacheprovider --timeout=900 --continue-on-collection-errors 2>&1 | tail -1)
  git checkout -q -- src
  echo "$P/$name: demo clean rc=$rc_clean mutated rc=$rc_mut tests: $tests"
  case "$tests" in *"98 passed, 4 errors"*) ok=1;; *) ok=0;; esac
  if [ $rc_clean = 0 ] && [ $rc_mut = 1 ] && [ $ok = 1 ]; then
    dst=/verif/seeded/$P-$name; mkdir -p $dst
    cp $d/patch.diff $d/demo.py $dst/
    python3 - $d/meta.json $dst/meta.json "$tests" <<'PY'
import json,sys
try: m=json.load(open(sys.argv[1]))
except Exception as e: m={"meta_error":str(e)}
m["confirmed_by_me"]={"demo_on_clean_tree":"exit 0 (PASS)","demo_with_patch":"exit 1 (FAIL)","test_suite_with_patch":sys.argv[3],
  "how":"tools/harvest_seed.sh: scratch worktree, git apply patch.diff, demo.py, full pytest, git checkout"}
json.dump(m,open(sys.argv[2],"w"),indent=1)
PY
    echo "   kept -> $dst"
  else
    echo "   REJECTED"; tail -3 /tmp/h_mut.txt
  fi
done
cd /; git -C /repo worktree remove --force $WT && echo "worktree $WT removed"
