#!/bin/sh
# tools/run_seeded.sh <seeded-dir-name> [check args...]: apply the seeded change to /repo, run the property's quick check, undo it.
# prints CAUGHT / MISSED
d=/verif/seeded/$1; shift
P=$(basename $d | cut -d- -f1)
props="$P $(python3 -c "import json;print(' '.join(json.load(open('$d/meta.json')).get('also_check',[])))" 2>/dev/null)"
git -C /repo diff --quiet || { echo "/repo is dirty; abort"; exit 2; }
git -C /repo apply $d/patch.diff || exit 2
res=MISSED
for p in $props; do
  out=$(cd /verif && ./check $p "$@" 2>&1); rc=$?
  echo "$out" | grep -E "^(VIOLATION|UNDECIDED|ENGINE|failed obligation|bounded layer)" | cut -c1-260 | head -8
  [ $rc = 1 ] && res=CAUGHT
  echo "  -> ./check $p rc=$rc"
done
git -C /repo checkout -- .
echo "$(basename $d): $res"
