#!/bin/sh
# run every registered quick check on /repo (refreshes evidence/*.json); prints one line per property
cd "$(dirname "$0")/.." || exit 2
for p in C01 C02 C03 C04 C05 C06 C07 C08 C09 C10 C11 C12 C13 C14 C15 C16 C17 C18 C19 C20; do
  o=$(./check $p "$@" 2>&1); rc=$?
  echo "$o" | tail -1 | cut -c1-170 | sed "s/^/rc=$rc /"
  echo "$o" | grep -E "^(VIOLATION|UNDECIDED|ENGINE)" | head -3 | cut -c1-200
done
