#!/bin/sh
# tools/sweep_seeded.sh [repo-copy]: run every seeded change (and the reversal of every fix commit) against the checks.
# Works on a scratch copy of the repository (never on /repo): pass it as $1 or via $VP_RUN_REPO.
R=${1:-$VP_RUN_REPO}
[ -n "$R" ] && [ "$R" != "/repo" ] || { echo "need a scratch copy of the repository"; exit 2; }
cd "$(dirname "$0")/.." || exit 2
export KVC_REPO=$R
out=out/sweep.tsv; mkdir -p out; : > $out
run() { # label props...
  label=$1; shift
  res=MISSED; detail=""
  for p in "$@"; do
    o=$(./check $p 2>&1); rc=$?
    ded=$(echo "$o" | grep -E "^failed obligation" | head -1 | cut -c1-150)
    bnd=$(echo "$o" | grep -E "^bounded layer" | head -1 | cut -c1-150)
    nded=$(echo "$o" | grep -c "^failed obligation")
    und=$(echo "$o" | grep -c "^UNDECIDED")
    detail="$detail [$p rc=$rc failed_obligations=$nded undecided=$und | ${ded} | ${bnd}]"
    [ $rc = 1 ] && res=CAUGHT
  done
  printf "%s\t%s\t%s\n" "$label" "$res" "$detail" | tee -a $out
}
for d in seeded/*/; do
  n=$(basename $d); P=$(echo $n | cut -d- -f1)
  [ -f $d/patch.diff ] || continue
  [ -z "$SWEEP_ONLY" ] || echo "$P" | grep -Eq "$SWEEP_ONLY" || continue
  git -C $R checkout -q -- . ; git -C $R apply "$(pwd)/$d/patch.diff" || { echo "$n: patch does not apply"; continue; }
  run "seeded:$n" $P
  git -C $R checkout -q -- .
done
# reversal of the fix commits: each must be reported again
[ -n "$SKIP_REVERTS" ] || grep "^fixed:" KNOWN_FINDINGS.txt | while read -r _ prop commit rest; do
  P=$(echo $prop | cut -d= -f2)
  git -C $R checkout -q -- . ; git -C $R show $commit | git -C $R apply -R || { echo "revert of $commit does not apply"; continue; }
  extra=$(echo "$rest" | grep -o "also C[0-9, C]*" | grep -o "C[0-9]*" | tr '\n' ' ')
  run "revert:$commit:$P" $P $extra
  git -C $R checkout -q -- .
done
echo "--- summary"; cut -f2 $out | sort | uniq -c
