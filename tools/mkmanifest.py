#!/usr/bin/env python3
"""Regenerate /verif/MANIFEST.json from props/*.py (claimed) and properties.jsonl (the rest -> not_applicable)."""
import importlib, json, os, sys
ROOT = os.path.dirname(os.path.dirname(os.path.abspath(__file__)))
sys.path.insert(0, ROOT)
props = [json.loads(l) for l in open(os.path.join(ROOT, "properties.jsonl"))]
checks, na = [], []
for p in props:
    pid = p["id"]
    try:
        cfg = importlib.import_module("props." + pid.lower())
    except ModuleNotFoundError:
        cfg = None
    if cfg is None or not getattr(cfg, "CLAIMED", True):
        na.append({"property_id": pid, "reason": getattr(cfg, "NA_REASON", "check not built yet (work in progress; planned contracts in DESIGN.md section 5)")})
        continue
    checks.append({
        "property_id": pid,
        "quick_cmd": "./check %s --tier quick" % pid,
        "thorough_cmd": "./check %s --tier thorough" % pid,
        "evidence_file": "/verif/evidence/%s.json" % pid,
        "replay_cmd_template": "./check %s --replay {path}" % pid,
        "engine": "kvc",
        "level_claimed": {"category": cfg.LEVEL, "text": cfg.LEVEL_TEXT, "design_ref": "DESIGN.md section 5, %s" % pid},
        "level_note": cfg.LEVEL_NOTE,
        "technique": cfg.TECHNIQUE,
    })
m = {
    "version": 1,
    "setup_cmd": "sh ./setup.sh",
    "hooks": {"guard": "KNEE_VERIF",
              "enable": "no source hooks are needed: contracts are sidecar files under /verif/contracts and the checks read /repo's working tree directly; the guard is declared and unused",
              "baseline_off_cmd": "cd /repo && /venv/bin/python -m pytest -ra -q -p no:cacheprovider --timeout=900 --continue-on-collection-errors",
              "source_commits": [], "add_only": True},
    "engines": [{"name": "kvc", "path": "/verif/kvc", "serves_properties": [c["property_id"] for c in checks],
                 "kind_free_text": "contract-based deductive verifier built for this task: Python AST of the real functions -> symbolic execution against sidecar contracts (requires/ensures/loop invariants/variants) -> verification conditions discharged by z3; counter-models are replayed on the real code under a runtime contract monitor; bounded run-time layers (labelled) stand in where no contract is in reach"}],
    "checks": checks,
    "notes": "Repairs of genuine defects are unguarded 'fix:' commits in /repo, listed in /verif/KNOWN_FINDINGS.txt. See DESIGN.md.",
    "not_applicable": na,
}
json.dump(m, open(os.path.join(ROOT, "MANIFEST.json"), "w"), indent=1)
print("claimed:", [c["property_id"] for c in checks], "not applicable:", len(na))
