PROP = "C14"
LEVEL = "exploration"
CONTRACT_MODULES = ["postprocessing"]
DEDUCTIVE = []
EXPLANATION = "bounded run-time layer only so far"
LEVEL_TEXT = ("Bounded exploration: add_points_even / add_points_even_knees compared with the documented candidate rule (exact rationals) and the "
              "running-minimum filter over curves, reductions, knee subsets, thresholds and both extremes settings. Not a proof.")
LEVEL_NOTE = "bounded; threshold ties (w == 2tx, h == ty, integral w/(2tx)) skipped and counted"
TECHNIQUE = "bounded run-time contract checking against an exact-rational oracle (stand-in)"
