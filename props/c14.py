PROP = "C14"
LEVEL = "other"
CONTRACT_MODULES = ["postprocessing"]
DEDUCTIVE = [("postprocessing", "kneeliverse.postprocessing.add_points_even_knees"),
             ("postprocessing", "kneeliverse.postprocessing.add_points_even")]
EXPLANATION = ("Both functions proved, for all inputs (real arithmetic), to complete without an index or division error and to return valid, strictly "
               "increasing (sorted, duplicate-free) indices whose heights are non-increasing, the result being filter_worst_knees (contract of C13) "
               "of the sorted distinct values of the concatenation; every inserted index stays inside its segment (inc * number_points <= right - left). "
               "Uses the mapping contract of C07 and assumed numpy contracts for concatenate / unique / sort / max / min. That the inserted points "
               "are the documented ceil(w/(2tx)) evenly spaced ones is restated by the code itself; the set equality with the statement's candidate "
               "set is decided by the bounded layer only.")
LEVEL_TEXT = ("Deductive: completion, validity, strict order and running-minimum shape of the result of add_points_even / add_points_even_knees for all "
              "inputs. Bounded: equality with the documented candidate rule (exact rationals) and the running-minimum filter over curves, reductions, "
              "knee subsets, thresholds and both extremes settings (the bounded part is not a proof).")
LEVEL_NOTE = "bounded part: threshold ties (w == 2tx, h == ty, integral w/(2tx)) skipped and counted"
TECHNIQUE = "sidecar contracts + AST->VC generation discharged by z3 (completion, validity, order); bounded run-time contract checking against an exact-rational oracle for the candidate set"
