PROP = "C05"
LEVEL = "exploration"
CONTRACT_MODULES = ["rdp", "linear_fit"]
DEDUCTIVE = []
EXPLANATION = "bounded run-time layer only so far (the contracts of _rdp_fixed are not discharged yet)"
LEVEL_TEXT = ("Bounded exploration: the whole chain k=0..n+1 on the curve families, size / nesting / greedy choice checked against the "
              "library's own primitives. Not a proof.")
LEVEL_NOTE = "bounded; oracle uses the library's distance and ordering primitives on explicit index ranges"
TECHNIQUE = "bounded run-time contract checking (stand-in; deductive contracts for _rdp_fixed pending)"
