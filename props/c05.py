PROP = "C05"
LEVEL = "proof"
CONTRACT_MODULES = ["rdp", "linear_fit", "evaluation"]
DEDUCTIVE = [
    ("rdp", "kneeliverse.rdp._rdp_fixed"),
    ("rdp", "kneeliverse.rdp.rdp_fixed#n>2"),
    ("rdp", "kneeliverse.rdp.rdp_fixed#n=2"),
]
EXPLANATION = ("(N) rdp_fixed returns exactly min(max(k,2), n) indices - proved for all curves, distances, orderings and k from the loop contract "
               "of _rdp_fixed: one fresh index per iteration, loop exits when the budget is used or the work list is empty, and the counting "
               "identity n - |reduced| = sum over pending segments of their interior points makes 'work list empty' mean 'all points "
               "retained'. The gained index is strictly inside a pending segment and different from every retained index (state invariant). "
               "Nesting of consecutive results, the arg-max and the maximal-ordering-score clauses are covered by the bounded layer (whole "
               "chain k=0..n+1 with the library's primitives).")
LEVEL_TEXT = ("Proof of exact size, duplicate-freeness and 'the gained index lies strictly inside a retained segment' for all inputs; bounded layer "
              "for nesting, interior arg-max up to rounding noise and the maximal ordering score.")
LEVEL_NOTE = "mode U (distance / ordering primitives uninterpreted); list.sort, np.argmax, np.all contracts and the pigeonhole lemma assumed; clauses G (score) and H (nesting) bounded only."
TECHNIQUE = "contract-based deductive verification (AST->VC, z3) with a counting invariant over the work list; bounded run-time layer as labelled stand-in"
