PROP = "C11"
LEVEL = "proof"
CONTRACT_MODULES = ["clustering"]
DEDUCTIVE = [
    ("clustering", "kneeliverse.clustering.single_linkage"),
    ("clustering", "kneeliverse.clustering.complete_linkage"),
    ("clustering", "kneeliverse.clustering.centroid_linkage"),
    ("clustering", "kneeliverse.clustering.average_linkage"),
    ("clustering", "lemma:single_linkage_monotone"),
    ("clustering", "lemma:complete_linkage_monotone"),
    ("clustering", "lemma:single_linkage_labels_onto"), ("clustering", "lemma:complete_linkage_labels_onto"),
    ("clustering", "lemma:centroid_linkage_labels_onto"), ("clustering", "lemma:average_linkage_labels_onto"),
]
EXPLANATION = ("Each linkage is verified against a postcondition taken from the statement: one label per point, labels start at 0, "
               "step 0/1, and a new cluster starts at i exactly when the linkage distance (to the first point of the current run, "
               "expressed through the labels) divided by the x range is >= t. Mode R. The consequence 'the number of single- and "
               "complete-linkage clusters never increases when t grows' is proved as two lemmas over the postconditions by induction on the "
               "position (single: labels pointwise ordered; complete: greedy-stays-ahead invariant c1 >= c2 and (c1 = c2 => start1 <= start2)); "
               "the lemma for complete linkage takes the existence of the first index of each run (least-element principle) as a hypothesis.")
ASSUMPTIONS = ["mode R: cluster_center drift and the distance/threshold comparison are over the reals"]
LEVEL_TEXT = ("Proof (mode R) of the threshold rule for all n, all strictly increasing x and all t>0 incl. exact ties, from VCs over the real "
              "source with loop invariants; cluster-count monotonicity as a lemma over the postconditions; bounded exact-rational "
              "cross-check of all four linkages on an exhaustive grid.")
LEVEL_NOTE = "A-REAL (doubles as reals) for centroid/average; math.fabs / np.abs / np.sum contracts assumed (listed in trusted_base)."
TECHNIQUE = "contract-based deductive verification (AST->VC, z3) of the real functions; bounded exhaustive run-time layer as labelled stand-in"
