PROP = "C02"
LEVEL = "exploration"
CONTRACT_MODULES = ["multi_knee"]
DEDUCTIVE = []
EXPLANATION = "bounded run-time layer only so far"
LEVEL_TEXT = ("Bounded exploration: multi-knee detection of all five detectors compared with the statement's recursive definition executed on the "
              "real single-knee detector (curve families, boundary thresholds, a 2600-point curve for deep split trees). Not a proof.")
LEVEL_NOTE = "bounded; the single-knee detectors are used as primitives by the oracle"
TECHNIQUE = "bounded run-time contract checking (stand-in; deductive contract for multi_knee pending)"
