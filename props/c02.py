PROP = "C02"
LEVEL = "proof"
CONTRACT_MODULES = ["multi_knee", "detectors", "menger"]
DEDUCTIVE = [
    ("multi_knee", "kneeliverse.multi_knee.multi_knee"),
    ("detectors", "kneeliverse.curvature.knee"),
    ("detectors", "kneeliverse.menger.knee"),
    ("detectors", "kneeliverse.dfdt.knee"),
    ("detectors", "kneeliverse.lmethod.knee#none"),
    ("detectors", "kneeliverse.lmethod.knee#original"),
]
EXPLANATION = ("multi_knee is verified in mode U against an abstract Detector contract (None or an index in [lo, len-2]): termination within 2n-1 "
               "iterations (variant 2*right(top)-|stack|), the result is strictly increasing within [lo, n-2], and it is empty when the curve has at "
               "most t2 points or the end-point line is on the straight side of t1. curvature, Menger, DFDT and the L-method (refinement none / "
               "original) are verified to satisfy the Detector contract (interior index, termination). Self-similarity (the recursive equation), "
               "Kneedle and the adjusted L-method refinement are covered by the bounded layer.")
LEVEL_TEXT = ("Proof of termination, ordering/range and the empty-result clause of recursive multi-knee detection for every detector that meets the "
              "abstract Detector contract, and of that contract for curvature, Menger, DFDT, L-method(none/original); bounded layer for the "
              "self-similarity equation, Kneedle and L-method(adjusted).")
LEVEL_NOTE = ("Fit-quality and distance primitives uninterpreted (mode U); uts.gradient / isodata assumed total and deterministic; np.argmax/argmin and "
              "list.sort contracts assumed; Kneedle's conformance rests on uts.peak_detection and is bounded only.")
TECHNIQUE = "contract-based deductive verification (AST->VC, z3) with an abstract contract for the callable parameter; bounded run-time layer as labelled stand-in"
