PROP = "C19"
LEVEL = "proof"
CONTRACT_MODULES = ["evaluation"]
DEDUCTIVE = [
    ("evaluation", "kneeliverse.evaluation.cm"),
    ("evaluation", "kneeliverse.evaluation.accuracy"),
    ("evaluation", "kneeliverse.evaluation.f1score"),
    ("evaluation", "kneeliverse.evaluation.mcc"),
    ("evaluation", "kneeliverse.evaluation.mae"), ("evaluation", "kneeliverse.evaluation.mae#knees"),
    ("evaluation", "kneeliverse.evaluation.mae#expected"), ("evaluation", "kneeliverse.evaluation.mae#perfect"),
    ("evaluation", "kneeliverse.evaluation.mse"), ("evaluation", "kneeliverse.evaluation.mse#knees"),
    ("evaluation", "kneeliverse.evaluation.mse#expected"), ("evaluation", "kneeliverse.evaluation.mse#perfect"),
    ("evaluation", "kneeliverse.evaluation.rmse"),
    ("evaluation", "kneeliverse.evaluation.rmspe"), ("evaluation", "kneeliverse.evaluation.rmspe#perfect"),
]
EXPLANATION = ("cm: TP+FN=|E|, TP+FP=|K|, entries non-negative and summing to n are postconditions proved with the loop invariant "
               "'claimed knees are pairwise distinct indices' (+ assumed pigeonhole lemma for TP<=|K|). accuracy and F1 in [0,1], MCC in [-1,1] "
               "where its denominator is non-zero, all three equal 1 on perfect detection: proved (nonlinear real arithmetic, hints). MAE and MSE: "
               "non-negative for every strategy; for the knees and expected strategies equal to the mean per-coordinate (absolute / squared) error of "
               "nearest-neighbour matching from the selected side (ghost map M[j] = a nearest row, nearest in Euclidean distance); 0 when E is exactly "
               "the knee points. RMSE = sqrt(MSE) >= 0. RMSPE defined and >= 0 on curves with non-negative coordinates, 0 on perfect detection. The "
               "greedy characterisation of TP, the best/worst side selection and the RMSPE value are covered by the bounded layer (exact rationals).")
LEVEL_TEXT = ("Proof of the accounting identities of the confusion matrix and of the ranges / perfect-detection values of accuracy, F1 and MCC "
              "for all inputs, of MAE/MSE as nearest-neighbour matching means (knees / expected strategies), RMSE = sqrt(MSE), non-negativity and perfect-detection zeros; bounded exact-rational layer for the greedy matching, best/worst strategies and RMSPE's value.")
LEVEL_NOTE = "pigeonhole lemma assumed (standard; Mathlib name recorded); np.argmin/np.fabs/ndarray.max/min contracts assumed; np.linalg.norm(axis=1) and broadcasting modelled elementwise; mse's value is named by an uninterpreted term in rmse's contract (determinism of mse assumed there)."
TECHNIQUE = "contract-based deductive verification (AST->VC, z3); bounded exact-rational run-time layer as labelled stand-in"
