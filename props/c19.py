PROP = "C19"
LEVEL = "proof"
CONTRACT_MODULES = ["evaluation"]
DEDUCTIVE = [
    ("evaluation", "kneeliverse.evaluation.cm"),
    ("evaluation", "kneeliverse.evaluation.accuracy"),
    ("evaluation", "kneeliverse.evaluation.f1score"),
    ("evaluation", "kneeliverse.evaluation.mcc"),
]
EXPLANATION = ("cm: TP+FN=|E|, TP+FP=|K|, entries non-negative and summing to n are postconditions proved with the loop invariant "
               "'claimed knees are pairwise distinct indices' (+ assumed pigeonhole lemma for TP<=|K|). accuracy and F1 in [0,1], MCC in [-1,1] "
               "where its denominator is non-zero, all three equal 1 on perfect detection: proved (nonlinear real arithmetic, hints). The greedy "
               "characterisation of TP, MAE/MSE/RMSE/RMSPE values and strategy side selection are covered by the bounded layer (exact rationals).")
LEVEL_TEXT = ("Proof of the accounting identities of the confusion matrix and of the ranges / perfect-detection values of accuracy, F1 and MCC "
              "for all inputs; bounded exact-rational layer for the greedy matching and the error metrics.")
LEVEL_NOTE = "pigeonhole lemma assumed (standard; Mathlib name recorded); np.argmin/np.fabs/ndarray.max/min contracts assumed; mae/mse/rmse/rmspe bounded only."
TECHNIQUE = "contract-based deductive verification (AST->VC, z3); bounded exact-rational run-time layer as labelled stand-in"
