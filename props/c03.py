PROP = "C03"
LEVEL = "other"
CONTRACT_MODULES = ["detectors", "menger"]
DEDUCTIVE = [("detectors", "lemma:menger_elbow_geometry"), ("detectors", "lemma:menger_elbow_corner"),
             ("detectors", "kneeliverse.menger.knee"), ("menger", "kneeliverse.menger.menger_curvature")]
EXPLANATION = ("Menger detector: proved for the whole family and beyond (any real slopes s1 != s2, any increasing spacing, arms of any length >= 1 "
               "segment, real arithmetic): lemma menger_elbow_geometry (away from the corner consecutive triples are collinear, at the corner the "
               "cross product is a*b*(s1-s2) != 0) and lemma menger_elbow_corner (with menger.knee's proved postcondition of C09 the returned index "
               "is the corner). The statement's dyadic restrictions are what makes floating point agree with the reals on the family. The other "
               "detectors (curvature, DFDT: third-party uts gradients; L-method: fit costs summarised as uninterpreted; Kneedle) are decided by the "
               "bounded layer only.")
LEVEL_TEXT = ("Deductive for the Menger detector (two lemmas over its discharged contract, all arm lengths). Bounded for the others: seeded random exact "
              "two-slope elbows (arms 3..12 segments, spacings 1..4, slopes multiples of 1/8, dyadic offsets), every detector and option must return "
              "the corner index exactly; the statement's exactness conditions make the floating-point oracle exact (the bounded part is not a proof: "
              "arm lengths are unbounded in the statement).")
LEVEL_NOTE = "bounded sample of the elbow family; DFDT/Kneedle/best-fit depend on third-party numerics (uts, np.polyfit)"
TECHNIQUE = "lemmas over the discharged contract of menger.knee (z3, real arithmetic); bounded run-time checking on exactly representable two-slope elbows for the other detectors"
