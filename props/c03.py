PROP = "C03"
LEVEL = "exploration"
CONTRACT_MODULES = ["menger"]
DEDUCTIVE = []
EXPLANATION = "bounded run-time layer only (the per-index lemmas of DESIGN section 5/C03 are not discharged)"
LEVEL_TEXT = ("Bounded exploration: seeded random exact two-slope elbows (arms 3..12 segments, spacings 1..4, slopes multiples of 1/8, dyadic "
              "offsets), every detector and option must return the corner index exactly. The statement's exactness conditions make the "
              "floating-point oracle exact. Not a proof: arm lengths are unbounded in the statement.")
LEVEL_NOTE = "bounded sample of the elbow family; DFDT/Kneedle/best-fit depend on third-party numerics (uts, np.polyfit)"
TECHNIQUE = "bounded run-time checking on exactly representable two-slope elbows (stand-in)"
