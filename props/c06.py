PROP = "C06"
LEVEL = "exploration"
CONTRACT_MODULES = ["rdp", "linear_fit"]
DEDUCTIVE = []
EXPLANATION = "bounded run-time layer only so far (the contracts of _rdp_fixed are not discharged yet)"
LEVEL_TEXT = ("Bounded exploration: grdp, mp_grdp and min_point_rdp compared with the fixed-size sequence and its global costs (boundary thresholds included), checked against the "
              "library's own primitives. Not a proof.")
LEVEL_NOTE = "bounded; oracle uses the library's distance and ordering primitives on explicit index ranges"
TECHNIQUE = "bounded run-time contract checking (stand-in; deductive contracts for _rdp_fixed pending)"
