PROP = "C06"
LEVEL = "other"
CONTRACT_MODULES = ["rdp", "linear_fit", "evaluation"]
DEDUCTIVE = [
    ("rdp", "kneeliverse.rdp._grdp", "thorough"),
    ("rdp", "kneeliverse.rdp.grdp#n>2"),
    ("rdp", "kneeliverse.rdp.grdp#n=2"),
    ("rdp", "kneeliverse.rdp.mp_grdp#n>2"),
    ("rdp", "kneeliverse.rdp.mp_grdp#n=2"),
    ("rdp", "kneeliverse.rdp.min_point_rdp"),
]
EXPLANATION = ("Deductive part: _grdp keeps the refinement state invariant and passes a cache that is consistent with the curve to every "
               "global-cost evaluation (the precondition under which C15 proves the value cache-independent); grdp / mp_grdp / min_point_rdp "
               "return well-formed reductions and mp_grdp / min_point_rdp return at least min(m, n) points. The headline clause - the result "
               "is the *first* member of the fixed-size sequence whose global cost is acceptable - needs the relational argument that _grdp "
               "and _rdp_fixed perform the same refinement steps; that is covered by the bounded layer (sequence S_k from rdp_fixed, global "
               "costs with fresh caches, boundary thresholds), not proved.")
LEVEL_TEXT = ("Structural clauses proved (state invariant, cache consistency, minimum size); the 'first acceptable refinement' clause is a bounded "
              "stand-in over curve families x metrics x distances x orderings x boundary thresholds x min_points.")
LEVEL_NOTE = "headline clause bounded only; _grdp verified in the thorough tier only"
TECHNIQUE = "contract-based deductive verification of the structural clauses; bounded run-time comparison with the fixed-size refinement sequence for the headline clause"
