PROP = "C09"
LEVEL = "proof"
CONTRACT_MODULES = ["detectors", "menger"]
DEDUCTIVE = [
    ("detectors", "kneeliverse.curvature.knee"),
    ("detectors", "kneeliverse.menger.knee"),
    ("menger", "kneeliverse.menger.menger_curvature"),      # the callee whose contract menger.knee relies on (owned by C17)
    ("detectors", "kneeliverse.dfdt.get_knee_gradient"),
    ("detectors", "kneeliverse.dfdt.knee"),
    ("detectors", "kneeliverse.lmethod.get_knee"),
    ("detectors", "kneeliverse.lmethod.knee#none"),
    ("detectors", "kneeliverse.lmethod.knee#original"),
]
EXPLANATION = ("Each detector's result is proved to be an interior index optimising its criterion: curvature maximises |g2|/(1+g1^2)^1.5 over "
               "interior points (first maximum; g1,g2 = uts.gradient cfd/csd, uninterpreted); DFDT's gradient step minimises |g - isodata(g)| "
               "over the interior and its refinement loop terminates (the previous knee strictly increases); Menger maximises the curvature of "
               "consecutive triples (each value characterised by the C17 contract of menger_curvature) and returns 0 only when all triples are "
               "collinear; the L-method's single pass returns the first strict minimiser of the two-line error over 2..n-3 and the refinement "
               "terminates for options none and original. The identification of g1, g2, T with f', f'' and the ISODATA threshold is the assumed "
               "contract of uts; L-method(adjusted) termination and the refinement values are bounded only.")
LEVEL_TEXT = ("Proof of interior optimality for curvature, DFDT, Menger and the L-method single pass, and of termination of DFDT and of the L-method "
              "refinement (none, original); bounded layer for L-method(adjusted) and for the composition of refinement steps.")
LEVEL_NOTE = "mode U over the dependency outputs (uts.gradient, uts.thresholding.isodata, lmethod.compute_error uninterpreted); A-NAN; np.argmax/argmin contracts assumed."
TECHNIQUE = "contract-based deductive verification (AST->VC, z3); bounded run-time layer as labelled stand-in"
