PROP = "C10"
LEVEL = "exploration"
CONTRACT_MODULES = ["rdp"]
DEDUCTIVE = []
EXPLANATION = ("bounded run-time layer only: the main loop of zmethod.getPoints is mask / diff / argwhere / hstack arithmetic on arrays whose shapes "
               "depend on the data; no quantified contract for it was attempted (DESIGN section 5/C10 and section 8)")
LEVEL_TEXT = ("Bounded exploration: Z-method on miss-ratio-like curves up to 60 points x (dx,dy,dz) settings x overrides: termination (guarded), "
              "valid strictly increasing indices, non-increasing heights, pairwise x/y separation computed from the statement. Not a proof.")
LEVEL_NOTE = "bounded; uts.zscore / uts.gradient are third-party numerics"
TECHNIQUE = "bounded run-time contract checking (stand-in)"
