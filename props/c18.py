PROP = "C18"
LEVEL = "exploration"
CONTRACT_MODULES = ["convex_hull"]
DEDUCTIVE = []
EXPLANATION = "bounded run-time layer only so far"
LEVEL_TEXT = ("Bounded exploration: lower/upper chains on all x-sorted curves over a 4-letter y alphabet up to n=6 (7) and random integer curves, "
              "graham_scan on grid point sets incl. degenerate ones, against brute-force hulls in exact arithmetic. Not a proof.")
LEVEL_NOTE = "bounded; integer coordinates (orientation signs exact in doubles)"
TECHNIQUE = "bounded run-time contract checking against an exact brute-force oracle (stand-in; deductive contracts for the chains pending)"
