PROP = "C18"
LEVEL = "proof"
CONTRACT_MODULES = ["convex_hull"]
DEDUCTIVE = [
    ("convex_hull", "kneeliverse.convex_hull.graham_scan_lower"),
    ("convex_hull", "kneeliverse.convex_hull.graham_scan_upper"),
]
EXPLANATION = ("graham_scan_lower / graham_scan_upper are proved (mode R) for every x-sorted curve with n >= 2: the result is a strictly increasing "
               "index chain from 0 to n-1, consecutive chain edges turn strictly counter-clockwise (clockwise), and every curve point between two "
               "consecutive chain vertices lies on or above (below) that edge. Loop invariants: the chain property of the stack plus 'the points "
               "strictly between the top and i are on the right side of line(top, i)'; the pop step is three orientation lemmas (points left of "
               "the old top / the old top itself / points right of it), discharged as hints by nlsat on a polynomial abstraction. That a chain "
               "with these properties is *the* hull chain (uniqueness) is a stated, unproved lemma; it is cross-checked against a brute-force "
               "hull in exact arithmetic by the bounded layer, which also covers graham_scan (completion, extreme vertices subset of result "
               "subset of boundary, clockwise vertex order in general position) on grid point sets incl. degenerate ones.")
ASSUMPTIONS = ["mode R: orientation signs computed in doubles are taken to be the real signs (exact for integer coordinates below 2^25)",
               "uniqueness of the convex chain with the proved properties (stated lemma, bounded cross-check)"]
LEVEL_TEXT = ("Proof of the hull-chain properties of the lower and upper hull routines for all x-sorted curves (termination, strictly increasing chain "
              "0..n-1, strict turns, all points on the correct side); graham_scan (comparator sort) is a labelled bounded stand-in.")
LEVEL_NOTE = "A-REAL for orientation signs; graham_scan / _sort_points / _compare_points bounded only (a comparator sort through cmp_to_key is outside the contract language)"
TECHNIQUE = "contract-based deductive verification (AST->VC, z3 incl. nlsat on polynomial abstractions, auto-active hints); bounded exact brute-force layer as labelled stand-in"
