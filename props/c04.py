PROP = "C04"
LEVEL = "proof"
CONTRACT_MODULES = ["rdp", "linear_fit"]
DEDUCTIVE = [("rdp", "kneeliverse.rdp.rdp")]
EXPLANATION = ("(K) every retained segment with interior points has its cost on the accepting side of t and (X) every retained interior "
               "index is explained by a split of a rejected range at an interior arg-max of the requested distance are postconditions of "
               "rdp.rdp, proved in mode U with ghost witness maps PL/PR (updated by ghost code keyed on the stack growing). 'accept' is "
               "copied from the statement. The bounded layer compares with the recursive partition incl. boundary thresholds r == t.")
LEVEL_TEXT = ("Proof (mode U: cost and distance primitives uninterpreted, compared as the library's own doubles) of clauses K and X for all "
              "curves, metrics, distances and thresholds; bounded layer for the equality with the recursive partition.")
LEVEL_NOTE = ("The identification of the uninterpreted CostCoef/Dist with 'endpoint-line cost' / 'distance to chord' is C16/C17; summaries "
              "of the leaf functions assumed deterministic; np.argmax contract assumed; base (structural) obligations are owned by C01.")
TECHNIQUE = "contract-based deductive verification (AST->VC, z3) with ghost witnesses; bounded run-time layer as labelled stand-in"
