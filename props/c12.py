PROP = "C12"
LEVEL = "other"
CONTRACT_MODULES = ["postprocessing"]
DEDUCTIVE = [("postprocessing", "kneeliverse.postprocessing.filter_clusters#ranked"),
             ("postprocessing", "kneeliverse.postprocessing.rank_corners_triangle"),
             ("postprocessing", "kneeliverse.postprocessing.filter_clusters_corners"),
             ("postprocessing", "kneeliverse.knee_ranking.smooth_ranking#def")]
EXPLANATION = ("filter_clusters (left/linear/right ranking) proved for all inputs against an abstract contract of the clustering parameter (the C11 "
               "postcondition: labels start at 0, grow by 0/1, every label occurs - the last is lemma *_linkage_labels_onto in C11) and an "
               "uninterpreted smooth_ranking score: one kept knee per cluster, in cluster order, strictly increasing, and the kept member of a "
               "multi-member cluster maximises the score (via the rank contract of C17). The corner variant is proved the same way with the corner-triangle score as a named specification function (rank_corners_triangle proved against it). The score itself (smooth_ranking) is proved to be FIT[k] x relative height, relative height = |peak - y_k| / sum over the cluster with peak the highest member, FIT[k] the lf.r2 value of the segment (uninterpreted). Hull mode: bounded layer.")
LEVEL_TEXT = ("Deductive for the three ranked modes of filter_clusters (one best-ranked member per cluster, strictly increasing) relative to the "
              "clustering contract and the score function; plus bounded exploration: filter_clusters in the three ranking modes (exactly one best-ranked member per cluster), hull mode (completes, at "
              "most one per cluster, none from clusters without a lower-hull point) and the corner variant, over curves x interior knee subsets "
              "x 4 linkages x thresholds (the bounded part is not a proof).")
LEVEL_NOTE = "bounded; ranking scores computed with the library's smooth_ranking / rank_corners_triangle as primitives; NaN scores counted, not hidden"
TECHNIQUE = "sidecar contracts + AST->VC generation discharged by z3 (ranked modes, corner variant); bounded run-time contract checking for hull mode"
