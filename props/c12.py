PROP = "C12"
LEVEL = "exploration"
CONTRACT_MODULES = ["postprocessing"]
DEDUCTIVE = []
EXPLANATION = "bounded run-time layer only so far"
LEVEL_TEXT = ("Bounded exploration: filter_clusters in the three ranking modes (exactly one best-ranked member per cluster), hull mode (completes, at "
              "most one per cluster, none from clusters without a lower-hull point) and the corner variant, over curves x interior knee subsets "
              "x 4 linkages x thresholds. Not a proof.")
LEVEL_NOTE = "bounded; ranking scores computed with the library's smooth_ranking / rank_corners_triangle as primitives; NaN scores counted, not hidden"
TECHNIQUE = "bounded run-time contract checking (stand-in)"
