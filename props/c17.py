PROP = "C17"
LEVEL = "proof"
CONTRACT_MODULES = ["linear_fit", "menger", "knee_ranking"]
DEDUCTIVE = [
    ("linear_fit", "kneeliverse.linear_fit.shortest_distance_points#def"),
    ("linear_fit", "kneeliverse.linear_fit.perpendicular_distance_points#def"),
    ("linear_fit", "kneeliverse.linear_fit.perpendicular_distance_index#def"),
    ("menger", "kneeliverse.menger.menger_curvature"),
    ("menger", "lemma:menger_symmetric"),
    ("knee_ranking", "kneeliverse.knee_ranking.rect"),
    ("knee_ranking", "kneeliverse.knee_ranking.rect_overlap"),
    ("knee_ranking", "lemma:rect_overlap_symmetric"),
    ("knee_ranking", "kneeliverse.knee_ranking.rank"),
]
EXPLANATION = ("Mode R (doubles as reals), division- and root-free postconditions: shortest_distance_points returns for every point the distance to "
               "the closed segment a-b (three clamp regions via W=(p-a).(b-a); to the point a when a=b); perpendicular_distance_points the distance "
               "to the infinite line (r>=0, r^2|b-a|^2 = cross^2); perpendicular_distance_index exactly the distances of the sub-range; Menger "
               "curvature the reciprocal circumradius (k>=0, k^2 a^2b^2c^2 = 4 cross^2), zero iff collinear, and symmetric (lemma over the "
               "contract). The proofs use auto-active hints at the return point, named specification functions and nlsat on a polynomial "
               "abstraction. rect_overlap is proved to be the intersection over union of its "
               "(rect-ordered) arguments, in [0,1], 0 on disjoint and 1 on identical non-degenerate rectangles, symmetric (lemma); rect returns the "
               "min/max corners; rank returns a permutation of 0..n-1 that orders the values (argsort contract + fancy-store model). "
               "distances, triangle_area: bounded layer only.")
ASSUMPTIONS = ["mode R; sqrt axiomatised by r>=0 and r*r=x; np.linalg.norm / np.dot / np.hypot / np.maximum.reduce / np.divide / np.fabs contracts assumed"]
LEVEL_TEXT = ("Proof (A-REAL) of the distance primitives and Menger curvature against their geometric definitions for all finite inputs incl. "
              "degenerate segments; rectangle overlap and rank included; bounded exact-rational layer as cross-check.")
LEVEL_NOTE = "A-REAL; NumPy entry points assumed by contract (trusted_base: norm, dot, hypot, maximum.reduce, divide, fabs, abs, argsort, arange, empty_like)."
TECHNIQUE = "contract-based deductive verification (AST->VC, z3 incl. nlsat on polynomial abstractions, hints); bounded exact-rational run-time layer as labelled stand-in"
