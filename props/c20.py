PROP = "C20"
LEVEL = "other"
CONTRACT_MODULES = ["rdp", "linear_fit"]
DEDUCTIVE = []
EXPLANATION = ("Four clauses, four mechanisms. Linking: a static resolver (rt/c20_link.py) generates one obligation per Name load, per attribute of an "
               "imported module and per intra-package call signature over every function and branch of every module and discharges it against "
               "the package's own AST and the installed dependencies (exhaustive over programs; counts in coverage.bounded.notes: "
               "link_obligations / link_discharged; the one undischarged obligation is the recorded known finding). Frame: a static alias analysis "
               "(rt/c20_frame.py) generates one obligation per in-place mutation site of every function (subscript stores, augmented "
               "assignments, .sort/.append/..., del, out=) - the root object must be allocated inside the function, not a parameter or a NumPy "
               "view / alias of one (documented in-place helpers _rdp_fixed/_grdp and the cost-cache parameter excepted, with their callers "
               "checked to pass fresh objects); counts frame_obligations / frame_discharged. Every function verified deductively for another "
               "property additionally carries the frame obligation with aliasing roots tracked through views; plus run-time before/after "
               "comparison of all arguments. Determinism and layout/dtype "
               "independence: bounded metamorphic execution of ~75 public entry points on C / Fortran / strided-view / int64 / float64 variants.")
LEVEL_TEXT = ("Static exhaustive link check (every name / module attribute / intra-package call signature in every code path) + bounded metamorphic "
              "execution for purity, determinism and layout/dtype independence. Layout and dtype independence is a statement about NumPy's "
              "implementation and is not decided by contracts (DESIGN section 8).")
LEVEL_NOTE = ("dynamic features (getattr, star imports) do not occur in the package; calls through function-valued locals are linked dynamically only; "
              "known finding: compute_global_segment_cost (legacy) calls compute_cost with a missing argument")
TECHNIQUE = "static link obligations over the AST of all modules (exhaustive) + bounded metamorphic run-time checks; frame obligations inside the deductive checks of the other properties"
