PROP = "C13"
LEVEL = "proof"
CONTRACT_MODULES = ["postprocessing", "knee_ranking"]
DEDUCTIVE = [
    ("postprocessing", "kneeliverse.postprocessing.filter_worst_knees"),
    ("postprocessing", "kneeliverse.postprocessing.filter_worst_knees#idem"),
    ("postprocessing", "kneeliverse.postprocessing.filter_corner_knees"),
    ("postprocessing", "kneeliverse.postprocessing.select_corner_knees"),
]
EXPLANATION = ("filter_worst_knees: proved to return exactly the order-preserving subsequence selected by 'height <= every earlier height' "
               "(ghost index maps IDX/POS/KEPT witness the subsequence), heights non-increasing; idempotence is a second specification of "
               "the same body (non-increasing heights in => identity out) composed with the first. Corner filter / selector: proved to return "
               "exactly the order-preserving subsequence selected by the statement's rule - the filter keeps a knee iff it lacks a neighbour or "
               "the intersection-over-union of the corner rectangle (p0.x,p2.y)-(p1) and the neighbour rectangle p0-p2 is < t, the selector iff it "
               "has both neighbours and that IoU is >= t (kr.rect / kr.rect_overlap by their C17 contracts; named spec function IoU). The two "
               "rules are complementary per element, so the outputs partition the knee list. Idempotence of the corner pair is covered by the "
               "bounded layer (exact rationals).")
ASSUMPTIONS = ["mode R for the height and IoU comparisons"]
LEVEL_TEXT = ("Proof of the worst-knee filter's exact selection rule and idempotence and of the structural clauses (order-preserving subsequence, "
              "completion) of the corner filter/selector, for all curves and knee lists; the corner IoU rule included; bounded exact-rational layer for idempotence of the corner pair and as cross-check.")
LEVEL_NOTE = "A-REAL; np.array as value identity; rect / rect_overlap by contract (verified under C17)."
TECHNIQUE = "contract-based deductive verification (AST->VC, z3) with ghost subsequence witnesses; bounded exact-rational run-time layer as labelled stand-in"
