PROP = "C13"
LEVEL = "proof"
CONTRACT_MODULES = ["postprocessing"]
DEDUCTIVE = [
    ("postprocessing", "kneeliverse.postprocessing.filter_worst_knees"),
    ("postprocessing", "kneeliverse.postprocessing.filter_worst_knees#idem"),
    ("postprocessing", "kneeliverse.postprocessing.filter_corner_knees"),
    ("postprocessing", "kneeliverse.postprocessing.select_corner_knees"),
]
EXPLANATION = ("filter_worst_knees: proved to return exactly the order-preserving subsequence selected by 'height <= every earlier height' "
               "(ghost index maps IDX/POS/KEPT witness the subsequence), heights non-increasing; idempotence is a second specification of "
               "the same body (non-increasing heights in => identity out) composed with the first. Corner filter / selector: proved to return "
               "an order-preserving duplicate-free subsequence, to complete without index errors (the neighbour rows exist whenever they are "
               "read) and never to divide by zero in rect_overlap; the IoU threshold rule itself, the partition and idempotence of the corner "
               "pair are covered by the bounded layer in exact rational arithmetic.")
ASSUMPTIONS = ["mode R for the height comparison; the IoU selection rule of the corner filters is bounded-only (see contracts/postprocessing.py)"]
LEVEL_TEXT = ("Proof of the worst-knee filter's exact selection rule and idempotence and of the structural clauses (order-preserving subsequence, "
              "completion) of the corner filter/selector, for all curves and knee lists; the corner IoU rule is a labelled bounded stand-in.")
LEVEL_NOTE = "np.array as value identity; rect/rect_overlap inlined; corner IoU rule: bounded only (nonlinear identity not discharged stably by z3)."
TECHNIQUE = "contract-based deductive verification (AST->VC, z3) with ghost subsequence witnesses; bounded exact-rational run-time layer as labelled stand-in"
