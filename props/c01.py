PROP = "C01"
LEVEL = "proof"
CONTRACT_MODULES = ["rdp", "linear_fit"]
DEDUCTIVE = [
    ("rdp", "kneeliverse.rdp.rdp"),
    ("rdp", "kneeliverse.rdp.compute_removed_points"),
]
EXPLANATION = ("Threshold RDP (rdp.rdp): termination within 2n-3 loop iterations (variant), strictly increasing result from 0 to n-1 and the "
               "removed table are proved for all n, both distances and all five metrics in mode U (numeric leaf functions uninterpreted, so "
               "no floating-point assumption). compute_removed_points is proved. The other simplifiers (rdp_fixed, grdp, mp_grdp, "
               "min_point_rdp) are covered by the bounded layer only (labelled).")
LEVEL_TEXT = ("Proof for threshold RDP and the removed-table helper (VCs from the real source, loop invariant: the work stack tiles "
              "[frontier, n), variant 2(n-1-frontier)-|stack|); bounded run-time layer for the remaining simplifiers, with the number of "
              "refinement steps counted against a linear bound.")
LEVEL_NOTE = ("Summaries of lf.linear_fit_points, lf.*_distance_points, rdp.compute_cost_coef are assumed total and deterministic "
              "(uninterpreted, mode U); np.argmax contract assumed; A-NAN. rdp_fixed/grdp/mp_grdp/min_point_rdp: bounded only.")
TECHNIQUE = "contract-based deductive verification (AST->VC, z3) of the real functions; bounded run-time layer as labelled stand-in"
