PROP = "C01"
LEVEL = "proof"
CONTRACT_MODULES = ["rdp", "linear_fit"]
DEDUCTIVE = [
    ("rdp", "kneeliverse.rdp.rdp"),
    ("rdp", "kneeliverse.rdp.compute_removed_points"),
]
EXPLANATION = "wip"
LEVEL_TEXT = "wip"
LEVEL_NOTE = "wip"
TECHNIQUE = "contract-based deductive verification (AST->VC, z3) of the real functions; bounded run-time layer as labelled stand-in"
CLAIMED = False
