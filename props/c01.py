PROP = "C01"
LEVEL = "proof"
CONTRACT_MODULES = ["rdp", "linear_fit", "evaluation"]
DEDUCTIVE = [
    ("rdp", "kneeliverse.rdp.rdp"),
    ("rdp", "kneeliverse.rdp.compute_removed_points"),
    ("rdp", "kneeliverse.rdp._rdp_fixed"),
    ("rdp", "kneeliverse.rdp.rdp_fixed#n>2"),
    ("rdp", "kneeliverse.rdp.rdp_fixed#n=2"),
    ("rdp", "kneeliverse.rdp._grdp", "thorough"),
    ("rdp", "kneeliverse.rdp.grdp#n>2"),
    ("rdp", "kneeliverse.rdp.grdp#n=2"),
    ("rdp", "kneeliverse.rdp.mp_grdp#n>2"),
    ("rdp", "kneeliverse.rdp.mp_grdp#n=2"),
    ("rdp", "kneeliverse.rdp.min_point_rdp"),
]
EXPLANATION = ("All simplifiers are under contract in mode U (numeric leaf functions uninterpreted: no floating-point assumption). "
               "rdp.rdp: termination within 2n-3 iterations, strictly increasing result from 0 to n-1, removed table. _rdp_fixed / rdp_fixed: "
               "one retained point per iteration (variant = remaining budget), the refinement state invariant (duplicate-free index set with both "
               "ends; pending segments pairwise disjoint with no retained interior point; counting identity n - |reduced| = sum of interior "
               "points of pending segments), exact size, sorted result, removed table. _grdp (thorough tier: ~690 s of solver time): the same "
               "state invariant with the shared cost cache kept consistent, variant n - |reduced| (pigeonhole lemma assumed). grdp, mp_grdp, "
               "min_point_rdp: compositions over the callee contracts. compute_removed_points is proved.")
LEVEL_TEXT = ("Proof for every simplifier: termination with a linear bound (loop variants), strictly increasing index list from 0 to n-1 and the "
              "removed table, for all curves, distances, metrics, orderings, thresholds and sizes; bounded run-time layer as a cross-check "
              "with refinement steps counted.")
LEVEL_NOTE = ("Summaries of lf.linear_fit_points, the distance functions, order_*, compute_cost_coef, compute_partial_cost assumed total and "
              "deterministic (uninterpreted, mode U); np.argmax / np.all / list.sort contracts and the pigeonhole lemma assumed; A-NAN. "
              "_grdp is verified in the thorough tier only (its callers are verified against its contract in both tiers).")
TECHNIQUE = "contract-based deductive verification (AST->VC, z3) of the real functions; bounded run-time layer as labelled stand-in"
