PROP = "C08"
LEVEL = "exploration"
CONTRACT_MODULES = ["rdp", "postprocessing"]
DEDUCTIVE = []
EXPLANATION = ("bounded run-time layer; the component contracts that are proved (C01/C04 threshold RDP, C07 mapping, C13 worst-knee filter and the "
               "subsequence clause of the corner filters) cover several links of the composition argument of DESIGN section 5/C08, but the "
               "parametric composition lemma itself is not discharged")
LEVEL_TEXT = ("Bounded exploration of the whole pipeline over curve families and the bundled traces x simplifier x detector x linkage x ranking mode: "
              "completion, subsequence property of each filter stage, non-increasing heights, mapped knees are retained points with matching coordinates. Not a proof.")
LEVEL_NOTE = "bounded; configurations sampled in the quick tier"
TECHNIQUE = "bounded run-time contract checking of the composed pipeline (stand-in)"
