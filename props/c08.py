PROP = "C08"
LEVEL = "other"
CONTRACT_MODULES = ["pipeline", "rdp"]
DEDUCTIVE = [("pipeline", "lemma:pipeline_composition")]
EXPLANATION = ("The end-to-end claim is a lemma over the component contracts, parametric in the simplifier, the detector and the filters, so the "
               "quantification over configurations is discharged once, not by enumeration: from Post_S (C01+C07: reduced strictly increasing "
               "from 0 to n-1), Post_D (C02: knees strictly increasing within [0, m-2]), Post_W / Post_C (C13: order-preserving subsequences, "
               "heights non-increasing after the worst-knee filter), Post_F (cluster filter returns an order-preserving subsequence) and Post_M "
               "(C07: out[j] = reduced[I[j]]) it follows that the mapped knees are strictly increasing original indices, each a retained "
               "simplification point with the coordinates of its reduced-space knee, with non-increasing heights; along the way the "
               "precondition of mapping (ascending positions within range) is established. The lemma is discharged by z3. Post_S, Post_D "
               "(except Kneedle), Post_W, Post_C, Post_M are proved under their own properties; Post_F (C12) and Kneedle's Detector "
               "conformance are bounded only, and 'the composed pipeline completes' is checked by the bounded layer on curve families and "
               "the bundled traces x 5 simplifiers x 5 detectors x 4 linkages x 4 ranking modes.")
LEVEL_TEXT = ("Composition lemma over the component contracts proved; weakest links: the cluster-filter stage and Kneedle are bounded only, so the "
              "end-to-end claim is proof modulo those two hypotheses plus a bounded run of the real composed pipeline.")
LEVEL_NOTE = "hypotheses of the lemma: C01, C02, C07, C13 postconditions (proved there) and the subsequence clause of filter_clusters (C12, bounded)"
TECHNIQUE = "lemma over contracts (z3) + bounded run-time checking of the composed pipeline"
