PROP = "C07"
LEVEL = "proof"
CONTRACT_MODULES = ["rdp"]
DEDUCTIVE = [
    ("rdp", "kneeliverse.rdp.mapping"),
    ("rdp", "kneeliverse.rdp.mapping#unsorted"),
    ("rdp", "kneeliverse.rdp.compute_removed_points"),
]
EXPLANATION = ("mapping (sorted=True) and compute_removed_points are proved against the property's statement for all n, all "
               "strictly increasing reductions and all ascending position lists (pure integer VCs, no numeric assumption). "
               "With sorted=False the same postcondition is proved for *every* row permutation of the table (ghost "
               "witnesses of the permutation; after the argsort the composed index map is strictly increasing on [0,m) and hence the identity - "
               "two inductions carried out as proof steps attached to the assignment). 'compute_removed_points reproduces each simplifier's "
               "table' follows from the (R) postconditions of C01. The bounded layer enumerates index sets exhaustively up to the stated n.")
ASSUMPTIONS = []
LEVEL_TEXT = ("Proof: verification conditions generated from the real source of rdp.mapping and rdp.compute_removed_points "
              "(loop invariants + variants in /verif/contracts/rdp.py) are discharged by z3 for all n, reductions and position lists; "
              "mapping(I, reduced, removed) == reduced[I] and the removed table are postconditions. including sorted=False for every row permutation; "
              "an exhaustive bounded layer (n<=9/11) cross-checks both and the simplifiers' own tables.")
LEVEL_NOTE = ("Trusted: kvc's encoding of Python semantics (A-SEM), np.array as identity on values, mathematical integers (A-INT). "
              "sorted=False: proved modulo the argsort contract (permutation with inverse, keys non-decreasing).")
TECHNIQUE = "contract-based deductive verification (AST->VC, z3) of the real functions; bounded exhaustive run-time layer as labelled stand-in"
