PROP = "C07"
LEVEL = "proof"
CONTRACT_MODULES = ["rdp"]
DEDUCTIVE = [
    ("rdp", "kneeliverse.rdp.mapping"),
    ("rdp", "kneeliverse.rdp.compute_removed_points"),
]
EXPLANATION = ("mapping (sorted=True) and compute_removed_points are proved against the property's statement for all n, all "
               "strictly increasing reductions and all ascending position lists (pure integer VCs, no numeric assumption). "
               "The bounded layer enumerates index sets exhaustively up to the stated n, including the sorted=False row "
               "permutations and the simplifiers' own tables.")
ASSUMPTIONS = []
LEVEL_TEXT = ("Proof: verification conditions generated from the real source of rdp.mapping and rdp.compute_removed_points "
              "(loop invariants + variants in /verif/contracts/rdp.py) are discharged by z3 for all n, reductions and position lists; "
              "mapping(I, reduced, removed) == reduced[I] and the removed table are postconditions. The sorted=False clause and "
              "'reproduces each simplifier's table' are additionally covered by an exhaustive bounded layer (n<=9/11).")
LEVEL_NOTE = ("Trusted: kvc's encoding of Python semantics (A-SEM), np.array as identity on values, mathematical integers (A-INT). "
              "sorted=False: proved modulo the argsort contract (permutation with inverse, keys non-decreasing).")
TECHNIQUE = "contract-based deductive verification (AST->VC, z3) of the real functions; bounded exhaustive run-time layer as labelled stand-in"
