PROP = "C15"
LEVEL = "exploration"
CONTRACT_MODULES = ["evaluation"]
DEDUCTIVE = []
EXPLANATION = "bounded run-time layer only so far (contracts for the cache dictionary are pending)"
LEVEL_TEXT = ("Bounded exploration: every breakpoint subset of small curves x 5 metrics against the definition in exact rational arithmetic; query "
              "sequences sharing one cache compared bit-for-bit with fresh caches; global RMSE and MIP against their definitions. Not a proof.")
LEVEL_NOTE = "bounded; relative metrics on segments containing y = 0 are skipped as ill-conditioned (counted in the evidence)"
TECHNIQUE = "bounded run-time contract checking against an exact-rational oracle (stand-in; deductive contracts pending)"
