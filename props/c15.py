PROP = "C15"
LEVEL = "proof"
CONTRACT_MODULES = ["evaluation"]
DEDUCTIVE = [
    ("evaluation", "kneeliverse.evaluation.compute_cost"),
    ("evaluation", "kneeliverse.evaluation.compute_global_cost#shared"),
    ("evaluation", "kneeliverse.evaluation.compute_global_cost#fresh"),
    ("evaluation", "kneeliverse.evaluation.compute_partial_cost#def"),
]
EXPLANATION = ("compute_cost is proved (mode R) to accumulate the statement's definition: R2 = 1 - RSS/TSS clipped at 0 (TSS of the whole curve, "
               "cached under 'tss'), rmsle/rmspe = sqrt(S/total), rpd/smape = S/total with total = n + #segments - 1, all >= 0. "
               "compute_global_cost is proved (mode U: the per-segment error is the library's own compute_partial_cost of the end-point "
               "interpolation, uninterpreted; segments of <= 2 points contribute 0) to return that accumulation over the segment errors with "
               "divisor n + |S| - 2, for a fresh cache and for any shared cache that is consistent with the curve (CacheOK), to keep the "
               "cache consistent and to leave old entries unchanged - so every query sequence sharing one cache returns exactly what fresh "
               "caches return (induction over the sequence with invariant CacheOK, a lemma over this contract). 'All points are "
               "breakpoints', global RMSE and MIP are covered by the bounded layer (exact rationals).")
ASSUMPTIONS = ["summary of lf.linear_fit_transform_points: deterministic (uninterpreted) at call sites - that it is the interpolation on the line through the segment's end points is proved in C16 (linear_fit_transform_points#def); compute_partial_cost is used through a summary (deterministic, >= 0) at call sites, "
               "and its five per-metric sums and non-negativity are proved against its body (compute_partial_cost#def, mode R); A-REAL for compute_cost"]
LEVEL_TEXT = ("Proof of the accumulation formula (divisor, clipping, TSS) and of cache transparency as a contract (consistent cache in => same value "
              "as with a fresh cache, consistent cache out, old entries untouched); bounded exact-rational layer for the per-metric values, "
              "query sequences, global RMSE and MIP.")
LEVEL_NOTE = "per-segment partial costs uninterpreted (their formulas are C16's metrics); dict model: keys are pairs of ints or the string 'tss'"
TECHNIQUE = "contract-based deductive verification (AST->VC, z3) incl. a dictionary model for the cost cache; bounded exact-rational run-time layer as labelled stand-in"
