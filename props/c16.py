PROP = "C16"
LEVEL = "proof"
CONTRACT_MODULES = ["metrics"]
_M = ["rmse", "rmsle", "rmspe", "rpd", "smape", "residuals", "r2"]
_L = ["rmse", "rmsle", "linear_residuals", "smape", "rpd", "rmspe", "linear_fit", "linear_transform",
      "rmse_points", "rmsle_points", "linear_residuals_points", "smape_points", "rpd_points", "rmspe_points",
      "linear_fit_points", "linear_transform_points", "linear_fit_transform#def", "linear_fit_transform_points#def"]
DEDUCTIVE = [("metrics", "kneeliverse.metrics." + m) for m in _M] + [("metrics", "kneeliverse.linear_fit." + m) for m in _L] \
    + [("metrics", "lemma:%s_symmetric" % m) for m in ("rmse", "residuals", "smape")] + [("metrics", "lemma:residuals_nonneg")]
EXPLANATION = ("Each metric's result is proved equal to its textbook formula (eps guard included) written independently with the spec fold "
               "Sum; equality of sums is by extensionality (pointwise side proofs). The linear-fit wrappers are proved to equal the metric "
               "applied to m*x+b through the callee contracts; the end-point fit passes through the first and last point. Mode R. "
               "Symmetry of rmse, residuals and smape is proved as three lemmas over the postcondition formulas (Sum extensionality); residuals >= 0 and rmse >= 0 by induction on the sum's upper limit (lemma residuals_nonneg). "
               "Range consequences, best-fit R2 = squared Pearson correlation and lf.linear_r2 are covered by the bounded layer "
               "(exact rational oracle).")
ASSUMPTIONS = ["mode R: 'to within floating-point rounding' is not decided by the proof; the bounded layer compares with exact rational evaluation at rel. tol. 1e-9",
               "log is an uninterpreted function; sqrt axiomatised; numba-compiled code assumed to follow its Python source (A-NUMBA)"]
LEVEL_TEXT = ("Proof (A-REAL, A-NUMBA) that r2, rmse, rmsle, rmspe, rpd, smape, residuals and the linear-fit wrappers equal their definitions for "
              "all vectors; symmetry of rmse/residuals/smape as lemmas over those formulas; bounded exact-rational layer for rounding, range consequences and the Pearson clause.")
LEVEL_NOTE = "A-REAL, A-NUMBA; np.mean/np.sum/np.square/np.abs/np.log/np.maximum/np.sqrt contracts assumed; lf.r2 (np.corrcoef) and lf.linear_r2 bounded only."
TECHNIQUE = "contract-based deductive verification (AST->VC, z3; Sum extensionality by side proofs); bounded exact-rational run-time layer as labelled stand-in"
