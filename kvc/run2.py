import sys, importlib, time, os
sys.path.insert(0, '/verif')
from kvc import core
mods = sys.argv[1].split(','); q = sys.argv[2]
reg = {}
for m in mods: reg.update(importlib.import_module('contracts.'+m).C)
t0=time.time()
if q.startswith('lemma:'):
    ctx = core.LemmaCtx(q, importlib.import_module('contracts.'+mods[0]).LEMMAS[q[6:]], reg, budget=float(os.environ.get('B','10')))
else:
    ctx = core.Ctx(reg[q].get('function', q.split('#')[0]), reg[q], reg, budget=float(os.environ.get('B','10')), label=q)
try: ctx.run()
except core.Unsupported as e: print("UNSUPPORTED:", e)
os.makedirs('/verif/out/debug', exist_ok=True); k=0
for o in ctx.obligs:
    if o.status!='discharged' or os.environ.get('ALL'):
        print("%-10s %5.2fs L%-4d %s" % (o.status, o.time, o.lineno, o.name[:170]), o.reason)
        if o.status!='discharged':
            open('/verif/out/debug/u%d.smt2'%k,'w').write(core.to_smt2(o.hyps,o.goal)); k+=1
print(len(ctx.obligs), 'obligations', sum(o.status=='discharged' for o in ctx.obligs), 'discharged; solver %.2fs wall %.2fs'%(ctx.solver_time, time.time()-t0))
print('pruned', ctx.pruned); print('trusted', sorted(ctx.trusted), 'inlined', sorted(ctx.inlined), 'callees', sorted(getattr(ctx,'callees',[])))
