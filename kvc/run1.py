import sys, importlib, time
sys.path.insert(0, '/verif')
from kvc import core
def main():
    modname, q = sys.argv[1], sys.argv[2]
    reg = importlib.import_module('contracts.'+modname).C
    t0=time.time()
    ctx = core.Ctx(q.split('#')[0], reg[q], reg, budget=10)
    try:
        ctx.run()
    except core.Unsupported as e:
        print("UNSUPPORTED:", e)
    for o in ctx.obligs:
        print("%-10s %5.2fs L%-4d %s" % (o.status, o.time, o.lineno, o.name[:150]), ('  '+o.reason) if o.status!='discharged' else '')
    print(len(ctx.obligs), 'obligations', sum(o.status=='discharged' for o in ctx.obligs), 'discharged; solver %.2fs wall %.2fs'%(ctx.solver_time, time.time()-t0))
    print('pruned', ctx.pruned); print('trusted', ctx.trusted, 'inlined', ctx.inlined)
main()
