import sys, importlib, time
sys.path.insert(0, '/verif')
from kvc import core
def main():
    modname, q = sys.argv[1], sys.argv[2]
    reg = importlib.import_module('contracts.'+modname).C
    t0=time.time()
    ctx = core.Ctx(q.split('#')[0], reg[q], reg, budget=float(__import__("os").environ.get("B","10")))
    try:
        ctx.run()
    except core.Unsupported as e:
        print("UNSUPPORTED:", e)
    for o in ctx.obligs:
        print("%-10s %5.2fs L%-4d %s" % (o.status, o.time, o.lineno, o.name[:150]), ('  '+o.reason) if o.status!='discharged' else '')
    import os
    os.makedirs('/verif/out/debug', exist_ok=True)
    k=0
    for o in ctx.obligs:
        if o.status!='discharged':
            open('/verif/out/debug/u%d.smt2'%k,'w').write(core.to_smt2(o.hyps,o.goal)); k+=1
    print(len(ctx.obligs), 'obligations', sum(o.status=='discharged' for o in ctx.obligs), 'discharged; solver %.2fs wall %.2fs'%(ctx.solver_time, time.time()-t0))
    print('pruned', ctx.pruned); print('trusted', ctx.trusted, 'inlined', ctx.inlined)
main()
