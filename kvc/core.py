"""kvc core: module loader / resolver, symbolic evaluator and executor, VC discharge.

Reads the *real* source text of /repo on every run (no copies), executes the AST of
the functions under contract symbolically and emits verification conditions that
are discharged with z3.  See DESIGN.md section 2.
"""
import ast
import hashlib
import os
import re
import time
import z3

from .values import (Unsupported, Sh, INT, REAL, BOOL, parse_shape, Val, Num, BoolV, NoneV, EnumV,
                     Opaque, Tup, Opt, FnV, ModV, ClsV, Seq, DictV, enum_sort, shape_of, fresh,
                     fresh_name, flatten_shape, flatten_val, build_val, leaf_sort, leaf_val)

REPO = os.environ.get("KVC_REPO", "/repo")
# parallel discharge: with KVC_PAR > 1 every obligation is proved in a forked child (a snapshot of the symbolic state at the moment the
# obligation arises), at most KVC_PAR at a time per function; SOLVER_SLOTS (set by the driver) bounds the number of proving processes
# of a whole check.  Verdicts do not feed back into symbolic execution, so deferring them changes nothing but wall time.
PAR = int(os.environ.get("KVC_PAR", "0") or 0)
SOLVER_SLOTS = None
TS = float(os.environ.get("KVC_TSCALE", "1") or 1)      # wall-clock limits are multiplied by this (machine slowness, see driver.calibrate)
RLIMIT_BACKSTOP = 20.0                                   # wall-clock backstop factor of the queries whose deciding limit is z3's rlimit
RLOG = os.environ.get("KVC_RLOG")
SECOND_PASS = False                                      # set by the driver: shorter restart portfolio, limits <= 2.5 s tripled, longer ones x1.5
PKG = "kneeliverse"
SRC = os.path.join(REPO, "src", PKG)


# =============================================================================== modules
class Module:
    def __init__(self, name, path):
        self.name = name
        self.path = path
        self.text = open(path).read()
        self.tree = ast.parse(self.text)
        self.funcs = {}
        self.enums = {}
        self.imports = {}   # local alias -> qualified module / object name
        self.globals = {}
        for n in self.tree.body:
            if isinstance(n, ast.FunctionDef):
                self.funcs[n.name] = n
            elif isinstance(n, ast.ClassDef):
                members = []
                for b in n.body:
                    if isinstance(b, ast.Assign) and len(b.targets) == 1 and isinstance(b.targets[0], ast.Name):
                        members.append(b.targets[0].id)
                if any(isinstance(b, ast.Name) and b.id == "Enum" or isinstance(b, ast.Attribute) and b.attr == "Enum"
                       for b in n.bases):
                    self.enums[n.name] = members
            elif isinstance(n, ast.Import):
                for a in n.names:
                    if a.asname:
                        self.imports[a.asname] = a.name
                    else:
                        self.imports[a.name.split(".")[0]] = a.name.split(".")[0]
            elif isinstance(n, ast.ImportFrom):
                for a in n.names:
                    self.imports[a.asname or a.name] = "%s.%s" % (n.module, a.name)
            elif isinstance(n, ast.Assign):
                for t in n.targets:
                    if isinstance(t, ast.Name):
                        self.globals[t.id] = n.value

    def func_source(self, fname):
        n = self.funcs[fname]
        lines = self.text.splitlines()[n.lineno - 1:n.end_lineno]
        return "\n".join(lines)


_modules = {}


def load_module(short):
    if short not in _modules:
        _modules[short] = Module("%s.%s" % (PKG, short), os.path.join(SRC, short + ".py"))
    return _modules[short]


def reset_modules():
    _modules.clear()


def find_function(qual):
    """'kneeliverse.rdp.mapping' -> (Module, FunctionDef)"""
    parts = qual.split(".")
    assert parts[0] == PKG, qual
    m = load_module(parts[1])
    if parts[2] not in m.funcs:
        raise Unsupported("function %s not found in %s" % (parts[2], m.path))
    return m, m.funcs[parts[2]]


def enum_members(qual):
    parts = qual.split(".")
    m = load_module(parts[1])
    return m.enums[parts[2]]


def enum_const(qual, member):
    srt, consts = enum_sort(qual, enum_members(qual))
    return EnumV(qual, consts[member])


# =============================================================================== obligations
class Oblig:
    __slots__ = ("name", "kind", "hyps", "goal", "lineno", "status", "time", "model", "reason", "func", "text", "tag", "smt2_text", "model_args", "model_error", "cpu_ratio")

    def __init__(self, name, kind, hyps, goal, lineno, func, text=""):
        self.name = name
        self.kind = kind
        self.hyps = list(hyps)
        self.goal = goal
        self.lineno = lineno
        self.func = func
        self.status = None
        self.time = 0.0
        self.model = None
        self.reason = ""
        self.smt2_text = self.model_args = self.model_error = self.cpu_ratio = None
        self.text = text


class State:
    __slots__ = ("env", "pc", "aliases")

    def __init__(self, env=None, pc=None):
        self.env = env if env is not None else {}
        self.pc = pc if pc is not None else []

    def fork(self):
        return State(dict(self.env), list(self.pc))


# =============================================================================== helpers on z3 terms
def b2t(v):
    """truthiness of a value as z3 Bool"""
    if isinstance(v, BoolV):
        return v.t
    if isinstance(v, Num):
        return v.t != 0
    if isinstance(v, Seq):
        if v.kind != "list":
            raise Unsupported("truth value of an array")
        return v.n > 0
    if isinstance(v, NoneV):
        return z3.BoolVal(False)
    if isinstance(v, Opt):
        # None -> False ; value -> truthiness of value
        return z3.And(z3.Not(v.isnone), b2t(v.val))
    if isinstance(v, Tup):
        return z3.BoolVal(len(v.items) > 0)
    raise Unsupported("truth value of %r" % (v,))


def num_pair(a, b):
    if a.is_int and b.is_int:
        return a.t, b.t, True
    return a.real(), b.real(), False


def py_int_of_real(t):
    # int() truncates toward zero
    return z3.If(t >= 0, z3.ToInt(t), -z3.ToInt(-t))


def py_floordiv(a, b):
    # z3 integer division is Euclidean (remainder >= 0); Python floors.
    return z3.If(b > 0, a / b, -((-a) / (-b)) if False else z3.If(a % b == 0, a / b, a / b - 1))


_rdiv = z3.Function("rdiv", z3.RealSort(), z3.RealSort(), z3.RealSort())


def real_div(x, y):
    """real division.  By a numeral: z3's own '/'.  By a symbolic term: the function rdiv, known to the
    solver only through instances of its defining equation y != 0 => rdiv(x,y)*y == x (and derived lemmas)
    added by spec_function_lemmas - this keeps the VCs division-free (DESIGN 2.5)."""
    y = z3.simplify(y)
    if z3.is_rational_value(y) or z3.is_int_value(y):
        return x / y
    return _rdiv(z3.simplify(x), y)


def as_num(v):
    if isinstance(v, Num):
        return v
    if isinstance(v, BoolV):
        return Num(z3.If(v.t, z3.IntVal(1), z3.IntVal(0)))
    raise Unsupported("number expected, got %r" % (v,))


def conjuncts(t):
    if z3.is_and(t):
        out = []
        for c in t.children():
            out.extend(conjuncts(c))
        return out
    return [t]


# =============================================================================== the verifier for one function
class Ctx:
    """Verification of one function against one contract."""

    def __init__(self, qual, contract, registry, budget=10.0, label=None, prop=None):
        self.prop = prop
        self.cur_tag = None
        self.qual = qual
        self.label = label or qual
        self.contract = contract
        self.registry = registry          # all contracts: qual -> contract dict
        self.module, self.fdef = find_function(qual)
        self.obligs = []
        self.cache = {}
        self.pending = []            # (Oblig, pid, read fd) of obligations being proved in child processes
        self.dups = []               # (Oblig, index of the identical obligation it copies its verdict from)
        self.model_value = None      # set by the driver: projection of a counter-model onto a parameter value
        self.budget = budget
        self.only = None             # set of (obligation name, occurrence) to prove; None = all
        self.pruned = []
        self.trusted = set()
        self.inlined = set()
        self.notes = []
        self.loop_ord = {}
        k = 0
        for n in ast.walk(self.fdef):
            pass
        for n in self._loops_in_order(self.fdef):
            self.loop_ord[id(n)] = k
            k += 1
        self.depth = 0
        self.solver_time = 0.0
        self.oblig_names = {}
        self.old_env = {}
        self.returns_seen = 0
        self.kind_stack = []
        self.frames = []    # inlined call stack: (module, contract_loops, loop_ord)

    @staticmethod
    def _loops_in_order(fdef):
        out = []

        def visit(n):
            for c in ast.iter_child_nodes(n):
                if isinstance(c, (ast.FunctionDef, ast.Lambda)) and c is not fdef:
                    continue
                if isinstance(c, (ast.While, ast.For)):
                    out.append(c)
                visit(c)
        visit(fdef)
        return out

    def clauses(self, lst):
        """contract clauses may carry an owner tag '@C04 <expr>': such a clause belongs to that property only
        (dropped - neither checked nor assumed - when another property is being checked).  -> [(text, tag)]"""
        out = []
        for c in lst or []:
            m = re.match(r"\s*@(C\d+\w*)\s+(.*)$", c, re.S)
            if m:
                if self.prop is None or m.group(1) == self.prop:
                    out.append((m.group(2), m.group(1)))
            else:
                out.append((c, None))
        return out

    # ---------------------------------------------------------------- obligations
    def oblig(self, kind, st, goal, node=None, text=""):
        """record + discharge one obligation (split into conjuncts)."""
        # (the goal is not simplified: hypotheses are not either, and syntactic agreement between a hypothesis
        #  instance and the goal is what makes nonlinear clauses cheap)
        parts = conjuncts(goal)
        ok = True
        for i, g in enumerate(parts):
            nm = kind if len(parts) == 1 else "%s [%d]" % (kind, i)
            ok = self._one(nm, kind, st, g, node, text) and ok
        return ok

    def _one(self, name, kind, st, goal, node, text):
        cnt = self.oblig_names.get(name, 0)
        self.oblig_names[name] = cnt + 1
        o = Oblig(name, kind, [], goal, getattr(node, "lineno", 0), self.label, text)
        o.tag = self.cur_tag
        o.status, o.time, o.model, o.reason = None, 0.0, None, None
        self.obligs.append(o)
        if self.only is not None and (name, cnt) not in self.only:
            # second pass of the driver: only the obligations left undecided by the first pass are proved again
            o.status, o.reason = "skipped", "not selected in this pass"
            return True
        if z3.is_true(goal) or z3.is_true(z3.simplify(goal)):
            o.status, o.reason = "discharged", "trivial"
            return True
        key = hashlib.sha1((";".join(sorted(h.sexpr() for h in st.pc)) + "|-" + goal.sexpr()).encode()).hexdigest()
        if key in self.cache:
            self.dups.append((o, self.cache[key]))
            self._settle_dups()
            return True
        self.cache[key] = len(self.obligs) - 1
        if PAR > 1 and hasattr(os, "fork"):
            while len(self.pending) >= PAR:
                self._collect(self.pending.pop(0))
            self.pending.append((o,) + self._spawn(st, goal))
            return True
        status, dt, model, reason = prove(st.pc, goal, self.budget)
        self.solver_time += dt
        o.status, o.time, o.model, o.reason = status, dt, model, reason
        if status != "discharged":
            o.hyps = list(st.pc)
        self._trace(o)
        return status == "discharged"

    def _trace(self, o):
        if os.environ.get("KVC_TRACE"):
            print("  [%s %.2fs] %s" % (o.status, o.time, o.name[:140]), flush=True)

    def _spawn(self, st, goal):
        import pickle
        r, w = os.pipe()
        pid = os.fork()
        if pid == 0:
            try:
                os.close(r)
                try:
                    import ctypes
                    ctypes.CDLL("libc.so.6").prctl(1, 9)      # die with the parent (hard limits kill the worker)
                except Exception:
                    pass
                if SOLVER_SLOTS is not None:
                    SOLVER_SLOTS.acquire()
                try:
                    STARVED[0] = 1.0
                    status, dt, model, reason = prove(st.pc, goal, self.budget)
                finally:
                    if SOLVER_SLOTS is not None:
                        SOLVER_SLOTS.release()
                # smallest CPU share among this proof's queries that ran into their wall-clock limit: well below 1 = the process was starved, the limit cut short
                extra = {"cpu_ratio": round(STARVED[0], 3)}
                if status != "discharged":
                    try:
                        extra["smt2"] = to_smt2(st.pc, goal)
                    except Exception:
                        pass
                    if status == "failed" and model is not None and self.model_value is not None:
                        try:
                            extra["model_args"] = {p: self.model_value(model, v) for p, v in self.old_env.items()}
                        except Exception as e:
                            extra["model_error"] = str(e)
                data = pickle.dumps((status, dt, reason, extra))
            except BaseException as e:
                data = pickle.dumps(("undecided", 0.0, "discharge process error: %r" % (e,), {}))
            try:
                with os.fdopen(w, "wb") as f:
                    f.write(data)
            finally:
                os._exit(0)
        os.close(w)
        return pid, r

    def _collect(self, entry):
        import pickle
        o, pid, r = entry
        try:
            with os.fdopen(r, "rb") as f:
                data = f.read()
            status, dt, reason, extra = pickle.loads(data)
        except Exception as e:
            status, dt, reason, extra = "undecided", 0.0, "discharge process died: %r" % (e,), {}
        try:
            os.waitpid(pid, 0)
        except Exception:
            pass
        o.status, o.time, o.reason = status, dt, reason
        o.smt2_text = extra.get("smt2")
        o.model_args = extra.get("model_args")
        o.model_error = extra.get("model_error")
        o.cpu_ratio = extra.get("cpu_ratio")
        self.solver_time += dt
        self._trace(o)

    def _settle_dups(self):
        rest = []
        for o, idx in self.dups:
            src = self.obligs[idx]
            if src.status is None:
                rest.append((o, idx))
                continue
            o.status, o.time, o.model, o.reason = src.status, 0.0, src.model, src.reason
            o.hyps = src.hyps
            for a in ("smt2_text", "model_args", "model_error", "cpu_ratio"):
                setattr(o, a, getattr(src, a, None))
        self.dups = rest

    def join(self):
        """wait for every obligation that is still being proved"""
        while self.pending:
            self._collect(self.pending.pop(0))
        self._settle_dups()

    def feasible(self, st, cond):
        s = z3.Solver()
        s.set("timeout", 2000)
        s.add(*st.pc)
        s.add(cond)
        s.add(*relevant_defs(list(st.pc) + [cond]))
        t0 = time.time()
        r = hard_check(s, 2000, tag="feasible")
        self.solver_time += time.time() - t0
        return r != z3.unsat

    # ---------------------------------------------------------------- entry point
    def run(self):
        try:
            self._run()
        finally:
            self.join()

    def _run(self):
        c = self.contract
        from . import values as _values
        _values.TRANSPARENT[0] = bool(c.get("transparent", False))
        st = State()
        facts = []
        args = self.fdef.args
        params = [a.arg for a in args.args]
        pshapes = c.get("params", {})
        for p in params:
            if p not in pshapes:
                raise Unsupported("contract of %s gives no shape for parameter %s" % (self.qual, p))
            sh = parse_shape(pshapes[p])
            self._declare_enums(sh)
            kind = "list" if p in c.get("list_params", ()) else "array"
            st.env[p] = fresh(sh, p, facts, kind)
            if isinstance(st.env[p], (Seq, DictV)):
                st.env[p].root = p
        for g, shs in c.get("ghost_vars", {}).items():
            sh = parse_shape(shs)
            self._declare_enums(sh)
            st.env[g] = fresh(sh, g, facts)
        st.pc.extend(facts)
        self.old_env = dict(st.env)
        ev = Eval(self, self.module, spec=True)
        for r, _ in self.clauses(c.get("requires", [])):
            st.pc.append(ev.spec_bool(r, st))
        for ax, _ in self.clauses(c.get("axioms", [])):
            st.pc.append(ev.spec_bool(ax, st))
        # vacuity guard: requires must be satisfiable
        s = z3.Solver()
        s.set("timeout", int(self.budget * 1000))
        s.add(*st.pc)
        r = s.check()
        self.requires_sat = str(r)
        if r == z3.unsat:
            self.oblig("requires satisfiable (vacuity guard)", State({}, []), z3.BoolVal(False))
            return
        ex = Exec(self, self.module, self.contract.get("loops", {}), self.loop_ord, top=True)
        for g in c.get("ghost_init", []):
            name, expr = g.split("=", 1)
            st.env[name.strip()] = ev.spec_val(expr, st)
        outs = ex.block(self.fdef.body, [st])
        for s2 in outs["normal"]:
            self._check_post(s2, NoneV(), self.fdef)
        for s2, v, node in outs["ret"]:
            self._check_post(s2, v, node)
        if outs["brk"] or outs["cont"]:
            raise Unsupported("break/continue outside loop")

    def _declare_enums(self, sh):
        if sh.kind == "enum":
            enum_sort(sh.name, enum_members(sh.name))
        for a in sh.args:
            self._declare_enums(a)

    def _check_post(self, st, val, node):
        self.returns_seen += 1
        c = self.contract
        st = st.fork()
        rsh = c.get("returns")
        if rsh:
            val = coerce_to_shape(val, parse_shape(rsh), st)
        st.env["result"] = val
        ev = Eval(self, self.module, spec=True)
        ph = c.get("post_hints", [])
        if isinstance(ph, dict):
            # keyed by the ordinal of the return statement in source order ('*' = every return)
            rets = [n_ for n_ in ast.walk(self.fdef) if isinstance(n_, ast.Return)]
            rets.sort(key=lambda n_: (n_.lineno, n_.col_offset))
            k_ = next((i for i, n_ in enumerate(rets) if n_ is node), None)
            ph = list(ph.get("*", [])) + list(ph.get(k_, []))
        for h, tag in self.clauses(ph):
            try:
                g = ev.spec_bool(h, st)
            except Unsupported as e:
                if "unresolved name" in str(e):
                    continue
                raise
            self.cur_tag = tag
            self.oblig("hint at return: %s" % h, st, g, node, h)
            self.cur_tag = None
            st.pc.append(g)
        for i, (e, tag) in enumerate(self.clauses(c.get("ensures", []))):
            g = ev.spec_bool(e, st)
            self.cur_tag = tag
            self.oblig("post: %s" % e, st, g, node, e)
            self.cur_tag = None
        for p in c.get("unmodified", []):
            pass


def run_steps(ctx, ev, st, steps, label, node):
    """auto-active proof steps: each is an obligation proved from the facts so far and then assumed.  {"induct": (var, lo, hi, P)}
    is induction over the integers lo <= var < hi on the predicate P (written with '@' for the variable): base and step are
    obligations, the quantified conclusion is assumed (the induction rule is the meta-argument)."""
    for h in steps:
        if isinstance(h, dict) and "induct" in h:
            var, lo, hi, pred = h["induct"]
            base = "implies(%s < %s, %s)" % (lo, hi, pred.replace("@", "(%s)" % lo))
            step = "forall(%s, (%s) - 1, lambda %s: implies(%s, %s))" % (lo, hi, var, pred.replace("@", var), pred.replace("@", "(%s + 1)" % var))
            concl = "forall(%s, %s, lambda %s: %s)" % (lo, hi, var, pred.replace("@", var))
            for nm, txt in (("induction base", base), ("induction step", step)):
                g = ev.spec_bool(txt, st)
                ctx.oblig("%s %s: %s" % (label, nm, txt), st, g, node, txt)
            st.pc.append(ev.spec_bool(concl, st))
            for e in h.get("at", []):      # named instances of the conclusion (a consequence of it; saves the solver the instantiation)
                gtxt = "%s <= (%s) and (%s) < %s" % (lo, e, e, hi)
                ctx.oblig("%s induction instance in range: %s" % (label, gtxt), st, ev.spec_bool(gtxt, st), node, gtxt)
                st.pc.append(ev.spec_bool(pred.replace("@", "(%s)" % e), st))
            continue
        g = ev.spec_bool(h, st)
        ctx.oblig("%s step: %s" % (label, h), st, g, node, h)
        st.pc.append(g)


class LemmaCtx(Ctx):
    """a lemma over contracts: fresh variables, hypotheses and a goal in the specification language (no code)"""

    def __init__(self, name, lemma, registry, budget=10.0, prop=None):
        self.lemma = lemma
        qual = lemma["context"]
        Ctx.__init__(self, qual, {"params": {}, "spec_funs": lemma.get("spec_funs", {})}, registry, budget=budget, label=name, prop=prop)

    def _run(self):
        st = State()
        facts = []
        for v, shs in self.lemma.get("vars", {}).items():
            sh = parse_shape(shs)
            self._declare_enums(sh)
            st.env[v] = fresh(sh, v, facts)
        st.pc.extend(facts)
        self.old_env = dict(st.env)
        ev = Eval(self, self.module, spec=True)
        for h in self.lemma.get("hyps", []):
            st.pc.append(ev.spec_bool(h, st))
        s = z3.Solver()
        s.set("timeout", 5000)
        s.add(*st.pc)
        self.requires_sat = str(s.check())
        run_steps(self, ev, st, self.lemma.get("steps", []), "lemma", None)
        for g in self.lemma["goal"] if isinstance(self.lemma["goal"], list) else [self.lemma["goal"]]:
            self.oblig("lemma: %s" % g, st, ev.spec_bool(g, st), None, g)


def coerce_to_shape(val, sh, st):
    """light coercion of a returned value to the declared result shape (e.g. Tup of ints -> Seq)."""
    if sh.kind == "seq" and isinstance(val, Tup):
        esh = sh.args[0]
        arrs = [z3.K(z3.IntSort(), z3.IntVal(0) if l.kind == "int" else z3.RealVal(0)) for l in flatten_shape(esh)]
        s = Seq(z3.IntVal(0), z3.IntVal(0), arrs, esh)
        for it in val.items:
            s = s.append(it)
        return s
    return val


# =============================================================================== discharge
def ground_apps(terms, prefix):
    """applications of functions whose name starts with prefix, outside quantifier bodies"""
    seen = set()
    out = []
    stack = list(terms)
    while stack:
        t = stack.pop()
        if t.get_id() in seen:
            continue
        seen.add(t.get_id())
        if z3.is_quantifier(t):
            continue
        if z3.is_app(t):
            if t.decl().name().startswith(prefix) and t.num_args() > 0:
                out.append(t)
            stack.extend(t.children())
    return out


_ext_cache = {}
_nn_cache = {}


def sum_nonneg(hyps, a, exactly_zero=False):
    """a sum of non-negative (resp. zero) terms is non-negative (resp. zero) - provable by induction; the pointwise fact is
    established by a side proof at a fresh index"""
    key = (a.get_id(), exactly_zero, hash(tuple(sorted(h.get_id() for h in hyps))))
    if key in _nn_cache:
        return _nn_cache[key]
    res = None
    try:
        k = z3.Int(fresh_name("xk"))
        zero = z3.IntVal(0) if a.sort() == z3.IntSort() else z3.RealVal(0)
        rng = [k >= a.arg(1), k < a.arg(2)]
        goal = (z3.Select(a.arg(0), k) == zero) if exactly_zero else (z3.Select(a.arg(0), k) >= zero)
        defs = relevant_defs(list(hyps) + rng + [goal])
        gi = ground_def_instances(list(hyps) + rng + [goal], defs) if defs else []
        s = z3.Solver()
        s.set("timeout", 700)
        s.set("smt.mbqi", False)
        s.add(*hyps)
        s.add(*rng)
        s.add(*gi)
        s.add(*defs)
        s.add(z3.Not(goal))
        if hard_check(s, 700, tag="nn") == z3.unsat:
            res = (a == zero) if exactly_zero else (a >= zero)
    except z3.Z3Exception:
        res = None
    _nn_cache[key] = res
    return res



def sum_extensionality(hyps, a, b):
    """extensionality of Sum (provable by induction on the range): if the two sums have the same bounds and the summands agree
    pointwise on the range - established here by a *side proof* at a fresh index - then the sums are equal.
    Returns the equality (to be used as a lemma instance) or None."""
    key = (a.get_id(), b.get_id(), hash(tuple(sorted(h.get_id() for h in hyps))))
    if key in _ext_cache:
        return _ext_cache[key]
    res = None
    try:
        k = z3.Int(fresh_name("xk"))
        rng = [k >= a.arg(1), k < a.arg(2)]
        goal = z3.And(a.arg(1) == b.arg(1), a.arg(2) == b.arg(2), z3.Select(a.arg(0), k) == z3.Select(b.arg(0), k))
        qf = [h for h in hyps if not has_quantifier(h)]
        defs = relevant_defs(qf + rng + [goal])
        gi = ground_def_instances(qf + rng + [goal], defs, rounds=8) if defs else []      # nested elementwise definitions: one round per level
        s = z3.Solver()
        s.set("timeout", 700)
        s.add(*qf)
        s.add(*rng)
        s.add(*gi)
        s.add(z3.Not(goal))
        _t1 = time.time()
        r = hard_check(s, 700, tag="ext1")
        if os.environ.get("KVC_TRACE3"):
            print("        ext stage1 %s %.2fs" % (r, time.time() - _t1), flush=True)
        if r == z3.unsat:
            res = (a == b)
        else:
            # second stage: quantified hypotheses that talk about one of the two arrays (e.g. a callee's postcondition)
            def syms(t):
                out = set()
                stack = [t]
                seen = set()
                while stack:
                    u = stack.pop()
                    if u.get_id() in seen:
                        continue
                    seen.add(u.get_id())
                    if z3.is_app(u):
                        if u.num_args() == 0 and u.decl().kind() == z3.Z3_OP_UNINTERPRETED and z3.is_array(u):
                            out.add(u.decl().name())
                        stack.extend(u.children())
                    elif z3.is_quantifier(u):
                        stack.append(u.body())
                return out
            want = syms(z3.And(*gi)) | syms(goal) if gi else syms(goal)
            qh = [h for h in hyps if has_quantifier(h) and (syms(h) & want)]
            if qh:
                s = z3.Solver()
                s.set("timeout", 1500)
                s.set("smt.mbqi", False)
                s.add(*qf)
                s.add(*rng)
                s.add(*qh)
                s.add(*gi)
                s.add(*defs)
                s.add(z3.Not(goal))
                _t1 = time.time()
                r = hard_check(s, 1500, tag="ext2")
                if os.environ.get("KVC_TRACE3"):
                    print("        ext stage2 %s %.2fs" % (r, time.time() - _t1), flush=True)
                if r == z3.unsat:
                    res = (a == b)
    except z3.Z3Exception:
        res = None
    if os.environ.get("KVC_TRACE3"):
        print("        sum_extensionality %s: %s" % ("proved" if res is not None else "NOT proved", (a == b).sexpr()[:200].replace("\n", " ")), flush=True)
    _ext_cache[key] = res
    return res


def spec_function_lemmas(hyps, goal, nonlinear=True):
    """instances of the defining axioms of recursive spec functions (Sum) at the terms that occur
    in the VC: unfolding at both ends, empty range, and extensionality between pairs of sums."""
    from . import npmodel
    extra = []
    sums = ground_apps(list(hyps) + [goal], "Sum_")
    done = set()
    frontier = sums
    for rnd in range(3):
        new = []
        for t in frontier:
            if t.get_id() in done:
                continue
            done.add(t.get_id())
            arr, lo, hi = t.children()
            fs = npmodel.sum_facts(arr, lo, hi)
            # frame of a store outside the summation range (an instance of extensionality): append / pop on lists
            a_ = arr
            depth_ = 0
            while z3.is_app(a_) and a_.decl().kind() == z3.Z3_OP_STORE and depth_ < 3:
                base_, idx_ = a_.arg(0), a_.arg(1)
                fs.append(z3.Implies(z3.Or(idx_ < lo, idx_ >= hi), t == npmodel.sum_term(base_, lo, hi)))
                a_ = base_
                depth_ += 1
            extra.extend(fs)
            new.extend(fs)
        frontier = [t for t in ground_apps(new, "Sum_") if t.get_id() not in done]
    # a sum of non-negative terms is non-negative (provable by induction): side proof of the pointwise fact at a fresh index
    for t in sums[:6]:
        nn = sum_nonneg(hyps, t)
        if nn is not None:
            extra.append(nn)
            zz = sum_nonneg(hyps, t, exactly_zero=True)
            if zz is not None:
                extra.append(zz)
    # extensionality: only between a sum that occurs in the goal and another sum with syntactically equal bounds
    goal_sums = {t.get_id() for t in ground_apps([goal], "Sum_")}
    tried = 0
    for i in range(len(sums)):
        for j in range(i + 1, len(sums)):
            a, b = sums[i], sums[j]
            if a.sort() != b.sort() or a.arg(0).eq(b.arg(0)):
                continue
            if a.get_id() not in goal_sums and b.get_id() not in goal_sums:
                continue
            if not z3.simplify(a.arg(1) - b.arg(1)).eq(z3.IntVal(0)):
                continue        # (equal upper bounds may follow from the hypotheses: the side proof establishes them)
            if tried >= 8:
                break
            tried += 1
            eq = sum_extensionality(hyps, a, b)
            if eq is not None:
                extra.append(eq)
    # |x| written as ite(x >= 0, x, -x): the square of it is the square of x (saves the solver a case split under a product)
    if nonlinear:
        seen = set()
        stack = list(hyps) + [goal]
        while stack:
            t = stack.pop()
            if t.get_id() in seen or z3.is_quantifier(t) or not z3.is_app(t):
                continue
            seen.add(t.get_id())
            if t.decl().kind() == z3.Z3_OP_ITE and t.sort().kind() in (z3.Z3_REAL_SORT, z3.Z3_INT_SORT):
                c, a, b = t.children()
                if z3.is_app(c) and c.decl().kind() in (z3.Z3_OP_GE, z3.Z3_OP_LE) and c.num_args() == 2 \
                        and z3.is_app(b) and z3.simplify(a + b).eq(z3.simplify(a - a)):
                    extra.append(t * t == a * a)
                    extra.append(t >= 0)
            stack.extend(t.children())
    # rdiv(x, y): instances of the defining equation and of derived (valid) facts of real division
    divs = ground_apps(list(hyps) + [goal] + extra, "rdiv")
    zero = z3.RealVal(0)
    for t in divs:
        x, y = t.arg(0), t.arg(1)
        if nonlinear:
            extra.append(z3.Implies(y != 0, t * y == x))
        extra.append(z3.Implies(z3.And(y > 0, x >= 0), t >= 0))
        extra.append(z3.Implies(z3.And(y > 0, x <= 0), t <= 0))
        extra.append(z3.Implies(z3.And(y != 0, x == 0), t == 0))
        extra.append(z3.Implies(z3.And(y > 0, x <= y), t <= 1))
        extra.append(z3.Implies(z3.And(y > 0, x >= y), t >= 1))
        extra.append(z3.Implies(z3.And(y != 0, x == y), t == 1))
        if z3.is_app(y) and y.decl().kind() == z3.Z3_OP_MUL and y.num_args() == 2:
            p, q = y.arg(0), y.arg(1)
            extra.append(z3.Implies(z3.And(p != 0, q != 0), t == _rdiv(_rdiv(x, p), q)))
            if nonlinear:
                extra.append(z3.Implies(z3.And(p != 0, q != 0), _rdiv(x, p) * p == x))
                extra.append(z3.Implies(z3.And(p != 0, q != 0), _rdiv(_rdiv(x, p), q) * q == _rdiv(x, p)))
    for i in range(len(divs)):
        for j in range(i + 1, len(divs)):
            a, b = divs[i], divs[j]
            # same divisor: rdiv is monotone / injective in the numerator
            extra.append(z3.Implies(z3.And(a.arg(1) == b.arg(1), a.arg(1) > 0),
                                    z3.And((a.arg(0) <= b.arg(0)) == (a <= b), (a.arg(0) == b.arg(0)) == (a == b))))
    return extra


def skolemize(hyps, goal):
    """goal-directed preprocessing: forall-goals get fresh constants, implications move their
    antecedent to the hypotheses (so that lemma instantiation sees ground terms).  Universally
    quantified hypotheses whose bound variables carry the same names as the goal's are additionally
    instantiated at the goal's constants (any instance of a hypothesis is a sound extra hypothesis)."""
    hyps = list(hyps)
    sk = {}
    for _ in range(12):
        if z3.is_quantifier(goal) and goal.is_forall():
            vs = [z3.Const(fresh_name("sk_" + goal.var_name(i)), goal.var_sort(i)) for i in range(goal.num_vars())]
            for i, v in enumerate(vs):
                sk[(goal.var_name(i).split("!")[0], str(goal.var_sort(i)))] = v
            goal = z3.substitute_vars(goal.body(), *reversed(vs))
        elif z3.is_implies(goal):
            hyps.append(goal.arg(0))
            goal = goal.arg(1)
        elif z3.is_or(goal):
            parts = goal.children()
            qs = [p for p in parts if (z3.is_quantifier(p) and p.is_forall()) or z3.is_and(p)]
            if len(qs) != 1:
                break
            for p in parts:
                if not p.eq(qs[0]):
                    hyps.append(z3.Not(p))
            goal = qs[0]
        else:
            break
    if sk:
        # any instance of a hypothesis is a sound extra hypothesis: instantiate the universally quantified
        # hypotheses whose bound variables carry the same names (and sorts) as the goal's at the goal's constants
        inst = []
        for h in hyps:
            if z3.is_quantifier(h) and h.is_forall():
                keys = [(h.var_name(i).split("!")[0], str(h.var_sort(i))) for i in range(h.num_vars())]
                if all(k in sk for k in keys):
                    inst.append(z3.substitute_vars(h.body(), *reversed([sk[k] for k in keys])))
                elif h.num_vars() == 1:
                    # single-variable hypotheses (library facts such as argmax dominance) at every goal constant of that sort
                    for (nm, srt), c in sk.items():
                        if srt == str(h.var_sort(0)):
                            inst.append(z3.substitute_vars(h.body(), c))
        hyps.extend(inst)
    return hyps, goal


def relevant_defs(terms):
    """definitional axioms (values.DEFS) of the computed-sequence symbols occurring in the VC (transitively)"""
    from . import values
    if not values.DEFS:
        return []
    names = set()
    seen = set()

    def scan(ts):
        stack = list(ts)
        while stack:
            u = stack.pop()
            if u.get_id() in seen:
                continue
            seen.add(u.get_id())
            if z3.is_app(u):
                names.add(u.decl().name())
                stack.extend(u.children())
            elif z3.is_quantifier(u):
                stack.append(u.body())
    scan(terms)
    out = []
    used = set()
    changed = True
    while changed:
        changed = False
        for nm, ax in values.DEFS:
            if nm in names and nm not in used:
                used.add(nm)
                out.append(ax)
                scan([ax])
                changed = True
    return out


import threading


_rl_last = {}
STARVED = [1.0]      # smallest CPU share among the queries of this process that hit their wall-clock limit


def hard_check(solver, ms, rlimit=0, tag=""):
    """solver.check() with a hard wall-clock limit: z3's own 'timeout' / 'rlimit' parameters are not honoured inside some
    nonlinear-arithmetic loops, so a timer thread interrupts the context (Z3_interrupt) when the limit expires.
    Every wall-clock limit is multiplied by TS (the machine's measured slowness, set by the driver), so that a verdict does not
    depend on how fast or how loaded the machine is; with `rlimit` the deciding limit is z3's deterministic resource counter and
    the wall-clock limit is only a (generous) backstop."""
    if SECOND_PASS:
        ms = float(ms) * (3.0 if ms <= 2500 else 1.5)      # the short limits (side proofs, first phases) are the load-sensitive ones
    ms = float(ms) * TS * (RLIMIT_BACKSTOP if rlimit else 1.0)
    try:
        solver.set("timeout", max(100, int(ms)))
        if rlimit:
            solver.set("rlimit", int(rlimit))
    except z3.Z3Exception:
        pass
    timer = threading.Timer(max(0.2, ms / 1000.0 * 1.25), solver.ctx.interrupt)
    timer.daemon = True
    timer.start()
    t0 = time.time()
    c0 = time.process_time()
    try:
        r = solver.check()
    except z3.Z3Exception:
        r = z3.unknown
    finally:
        timer.cancel()
    wall = time.time() - t0
    if r == z3.unknown and wall > 0.2:
        # a query that ran into its wall-clock limit: what share of that time did the process have a CPU?
        STARVED[0] = min(STARVED[0], (time.process_time() - c0) / wall)
    if RLOG:
        try:
            rc = dict((k, v) for k, v in ((k, solver.statistics().get_key_value(k)) for k in solver.statistics().keys())).get("rlimit count", -1)
            key = (os.getpid(), id(solver.ctx))
            d = rc - _rl_last.get(key, 0) if solver.ctx is z3.main_ctx() else rc
            _rl_last[key] = rc
            with open(RLOG, "a") as f:
                f.write("%s\t%d\t%.3f\t%s\t%s\t%s\n" % (tag, ms, time.time() - t0, d, r, rlimit))
        except Exception:
            pass
    return r


def is_specfun_def(d):
    """definitional axiom of a named specification function (as opposed to a computed sequence)"""
    if not z3.is_quantifier(d) or d.num_patterns() == 0:
        return z3.is_app(d) and d.num_args() == 2 and z3.is_const(d.arg(0)) and d.arg(0).decl().name().startswith("spec_")
    pat = d.pattern(0).arg(0)
    return z3.is_app(pat) and pat.decl().name().startswith("spec_")


def _check(hyps, goal, lem, ms, mbqi=True, seed=0, rlimit=0, opaque=False):
    if os.environ.get("KVC_TRACE3"):
        t_ = time.time()
        r_ = _check0(hyps, goal, lem, ms, mbqi, seed, rlimit, opaque)
        print("        _check nh=%d nl=%d ms=%d mbqi=%s seed=%s rl=%s -> %s %.2fs" % (len(hyps), len(lem or []), ms, mbqi, seed, rlimit, r_[0], time.time() - t_), flush=True)
        return r_
    return _check0(hyps, goal, lem, ms, mbqi, seed, rlimit, opaque)


def _check0(hyps, goal, lem, ms, mbqi=True, seed=0, rlimit=0, opaque=False):
    s = z3.Solver()
    s.set("timeout", max(100, int(ms)))
    if rlimit:
        s.set("rlimit", int(rlimit))
    if seed:
        s.set("random_seed", seed)
    if not mbqi:
        s.set("smt.mbqi", False)
    s.add(*hyps)
    s.add(z3.Not(goal))
    if lem:
        s.add(*lem)
    defs = relevant_defs(list(hyps) + [goal] + list(lem or []))
    if opaque:
        defs = [d for d in defs if not is_specfun_def(d)]
    if defs:
        s.add(*defs)
    if os.environ.get("KVC_DUMP") and os.environ["KVC_DUMP"] in goal.sexpr():
        _check0.n = getattr(_check0, "n", 0) + 1
        open("/var/tmp/dump_%d.smt2" % _check0.n, "w").write(s.to_smt2())
    if seed and not mbqi:
        # restart in a fresh z3 context: re-parsing the query renumbers the terms, which (much more than the seed
        # parameter) changes the instantiation order; only the verdict is needed from these attempts
        ctx = z3.Context()
        s2 = z3.Solver(ctx=ctx)
        s2.set("timeout", max(100, int(ms)))
        if rlimit:
            s2.set("rlimit", int(rlimit))
        s2.set("smt.random_seed", seed)
        if not mbqi:
            s2.set("smt.mbqi", False)
        s2.from_string(s.to_smt2())
        r = hard_check(s2, ms, tag="check-fresh")
        r = z3.unsat if r == z3.unsat else (z3.sat if r == z3.sat else z3.unknown)
        return r, s
    r = hard_check(s, ms, tag="check")
    return r, s


def prove(hyps, goal, budget, depth=0):
    """conjunctions that appear under the goal's quantifier prefix are split: each conjunct is its own query"""
    hyps2, goal2 = skolemize(hyps, goal)
    parts = conjuncts(goal2)
    if len(parts) > 1 and depth < 3:
        t0 = time.time()
        worst = ("discharged", None, "z3")
        for g in parts:
            st, dt, model, reason = prove(hyps2, g, budget, depth + 1)
            if os.environ.get("KVC_TRACE2"):
                print("      part d%d [%s %.2fs] %s" % (depth, st, dt, g.sexpr()[:300].replace("\n", " ")), flush=True)
            if st == "failed":
                return st, time.time() - t0, model, reason
            if st == "undecided":
                worst = (st, None, reason)
        return worst[0], time.time() - t0, worst[1], worst[2]
    return prove1(hyps2, goal2, budget)


def ground_def_instances(terms, defs, rounds=3):
    """instances of the definitional axioms (computed sequences, named spec functions) at the ground occurrences of the
    defined symbols in the VC - complete for non-recursive definitions and independent of E-matching heuristics"""
    out = []
    have = set()
    cur = list(terms)
    for _ in range(rounds):
        new = []
        for d in defs:
            if not z3.is_quantifier(d) or d.num_patterns() == 0:
                continue
            pat = d.pattern(0).arg(0)
            nv = d.num_vars()
            is_sel = z3.is_select(pat)
            hname = (pat.arg(0) if is_sel else pat).decl().name()
            seen = set()
            stack = list(cur)
            while stack:
                t = stack.pop()
                if t.get_id() in seen or z3.is_quantifier(t) or not z3.is_app(t):
                    continue
                seen.add(t.get_id())
                args = None
                if is_sel:
                    if z3.is_select(t) and z3.is_app(t.arg(0)) and t.arg(0).decl().name() == hname:
                        args = list(t.arg(0).children()) + [t.arg(1)]
                elif t.decl().name() == hname:
                    args = list(t.children())
                if args is not None and len(args) == nv:
                    key = (d.get_id(), tuple(a.get_id() for a in args))
                    if key not in have:
                        have.add(key)
                        new.append(z3.substitute_vars(d.body(), *reversed(args)))
                stack.extend(t.children())
        if not new:
            break
        out.extend(new)
        cur = list(terms) + out
    return out


def abstract_atoms(terms):
    """replace every maximal non-arithmetic numeric subterm (array reads, uninterpreted applications such as rdiv / sqrt /
    Sum, integer-to-real casts) by a fresh variable (the same term gets the same variable).  The result is a pure
    polynomial problem that is *weaker* than the original one; z3's nlsat decides it."""
    cache = {}
    ARITH = {z3.Z3_OP_ADD, z3.Z3_OP_SUB, z3.Z3_OP_MUL, z3.Z3_OP_UMINUS, z3.Z3_OP_LE, z3.Z3_OP_GE, z3.Z3_OP_LT, z3.Z3_OP_GT,
             z3.Z3_OP_EQ, z3.Z3_OP_DISTINCT, z3.Z3_OP_AND, z3.Z3_OP_OR, z3.Z3_OP_NOT, z3.Z3_OP_IMPLIES, z3.Z3_OP_ITE,
             z3.Z3_OP_IFF, z3.Z3_OP_XOR, z3.Z3_OP_TRUE, z3.Z3_OP_FALSE, z3.Z3_OP_ANUM}
    has_int = [False]

    def walk(t):
        i = t.get_id()
        if i in cache:
            return cache[i]
        if z3.is_quantifier(t):
            raise z3.Z3Exception("quantifier")
        k = t.decl().kind()
        numeric = t.sort().kind() in (z3.Z3_REAL_SORT, z3.Z3_INT_SORT)
        if z3.is_rational_value(t) or z3.is_int_value(t):
            r = t
        elif k == z3.Z3_OP_DIV and (z3.is_rational_value(t.arg(1)) or z3.is_int_value(t.arg(1))) and t.sort().kind() == z3.Z3_REAL_SORT:
            r = walk(t.arg(0)) / t.arg(1)
        elif k in ARITH and (numeric or t.sort().kind() == z3.Z3_BOOL_SORT) and \
                all(c.sort().kind() in (z3.Z3_REAL_SORT, z3.Z3_INT_SORT, z3.Z3_BOOL_SORT) for c in t.children()):
            r = t.decl()(*[walk(c) for c in t.children()]) if t.num_args() else t
        elif numeric:
            if t.sort().kind() == z3.Z3_INT_SORT:
                has_int[0] = True
            r = z3.Const("atom!%d" % i, t.sort()) if not (z3.is_const(t) and k == z3.Z3_OP_UNINTERPRETED) else t
            if t.sort().kind() == z3.Z3_INT_SORT:
                has_int[0] = True
        elif t.sort().kind() == z3.Z3_BOOL_SORT:
            r = z3.Const("atomb!%d" % i, z3.BoolSort()) if not z3.is_const(t) else t
        else:
            raise z3.Z3Exception("non-numeric term")
        cache[i] = r
        return r
    return [walk(t) for t in terms], has_int[0]


def nlsat_refutes(hyps, goal, ms):
    """True iff the polynomial abstraction of hyps /\ not goal is unsatisfiable"""
    try:
        ab, has_int = abstract_atoms(list(hyps) + [goal])
    except z3.Z3Exception:
        return False
    try:
        s = z3.TryFor(z3.Tactic("qfnra-nlsat"), int(ms)).solver() if not has_int else z3.Solver()
        s.set("timeout", int(ms))
        s.add(*ab[:-1])
        s.add(z3.Not(ab[-1]))
        return hard_check(s, ms, tag="nlsat") == z3.unsat
    except z3.Z3Exception:
        return False


_umul = z3.Function("umul", z3.RealSort(), z3.RealSort(), z3.RealSort())
_umuli = z3.Function("umuli", z3.IntSort(), z3.IntSort(), z3.IntSort())


def abstract_mul(terms, flatten=True):
    """replace every product of two non-numeral factors by an uninterpreted (commutative) function: the result is
    *weaker* than the original VC, so refuting it refutes the original; congruence then proves equalities between
    syntactically corresponding nonlinear expressions without invoking the nonlinear solver."""
    cache = {}

    def isnum(t):
        return z3.is_rational_value(t) or z3.is_int_value(t)

    def walk(t):
        i = t.get_id()
        if i in cache:
            return cache[i]
        if z3.is_quantifier(t):
            vs = [z3.Const("%s!q%d" % (t.var_name(k), i), t.var_sort(k)) for k in range(t.num_vars())]
            body = walk(z3.substitute_vars(t.body(), *reversed(vs)))
            r = (z3.ForAll if t.is_forall() else z3.Exists)(vs, body) if not t.is_lambda() else t
        elif z3.is_app(t) and t.num_args() > 0:
            if t.decl().kind() == z3.Z3_OP_MUL:
                # canonical form: nested products are flattened completely, factors sorted, folded to the left
                facs = []
                stk = list(t.children())
                while stk:
                    c = stk.pop()
                    if flatten and z3.is_app(c) and c.decl().kind() == z3.Z3_OP_MUL:
                        stk.extend(c.children())
                    else:
                        facs.append(walk(c))
                ch = facs
                nums = [c for c in ch if isnum(c)]
                syms = [c for c in ch if not isnum(c)]
                if len(syms) >= 2:
                    syms.sort(key=lambda c: c.sexpr())
                    f = _umuli if syms[0].sort() == z3.IntSort() and all(c.sort() == z3.IntSort() for c in syms) else _umul
                    if f is _umul:
                        syms = [z3.ToReal(c) if c.sort() == z3.IntSort() else c for c in syms]
                    acc = syms[0]
                    for c in syms[1:]:
                        acc = f(acc, c)
                    for c in nums:
                        acc = c * acc
                    r = acc
                elif len(syms) == 1:
                    r = syms[0]
                    for c in nums:
                        r = c * r
                else:
                    r = t
            else:
                r = t.decl()(*[walk(c) for c in t.children()])
        else:
            r = t
        cache[i] = r
        return r
    return [walk(t) for t in terms]


def prove1(hyps2, goal2, budget):
    """unsat -> discharged; sat -> failed (model of the *full* VC); otherwise undecided.

    z3's run time on these VCs (quantifiers + arrays + uninterpreted functions) is heavy-tailed: the same query
    is refuted in 10 ms or not in 60 s depending on the seed.  The budget is therefore spent on *restarts*:
    several short, resource-limited attempts with different seeds (DESIGN 2.5).
      A. quantifier-free goal: quantifier-free hypotheses only, with the nonlinear lemma instances (NLA steps);
      B. all hypotheses, E-matching only (mbqi off), linear lemma instances, K restarts;
      C. all hypotheses with model-based instantiation (the only phase that can return a counter-model)."""
    t0 = time.time()
    K = 2 if SECOND_PASS else max(3, int(budget / 3))
    RL = 3000000 if budget <= 30 else 10000000
    defs = relevant_defs(list(hyps2) + [goal2])
    gi = ground_def_instances(list(hyps2) + [goal2], defs) if defs else []
    qf_goal = not has_quantifier(goal2)
    if qf_goal and gi:
        # phase 0: definitions kept opaque (named spec functions / computed sequences are just symbols): many goals follow from
        # the hints alone, and unfolding large nonlinear definitions only distracts the solver
        qf_ = [h for h in hyps2 if not has_quantifier(h)]
        l_ = [l for l in spec_function_lemmas(list(hyps2), goal2, nonlinear=False) if not has_quantifier(l)]
        for seed in (0, 1):
            s_ = z3.Solver()
            s_.set("timeout", 1000)
            if seed:
                s_.set("random_seed", seed)
            s_.add(*qf_)
            s_.add(*l_)
            s_.add(z3.Not(goal2))
            if hard_check(s_, 1000, tag="phase0") == z3.unsat:
                return "discharged", time.time() - t0, None, "z3 (quantifier-free hypotheses, definitions opaque)"
    lem = spec_function_lemmas(list(hyps2) + gi, goal2) + gi
    lem0 = spec_function_lemmas(list(hyps2) + gi, goal2, nonlinear=False) + gi
    # a goal about named specification functions is as nonlinear as their (instantiated) bodies
    nonlin = goal_is_nonlinear(goal2) or any(is_specfun_app_def(g) and goal_is_nonlinear(g) for g in gi)
    if qf_goal:
        qf = [h for h in hyps2 if not has_quantifier(h)]
        lemq = [l for l in (lem if nonlin else lem0) if not has_quantifier(l)]
        lemq0 = [l for l in lem0 if not has_quantifier(l)]
        # quantifier-free portfolio: all lemma instances / the linear ones only, a few short restarts each (fresh contexts)
        for seed in (0, 1, 2):
            for L in ((lemq, lemq0) if len(lemq) != len(lemq0) else (lemq0,)):
                r, s = _check(qf, goal2, L, 1200, mbqi=False, seed=seed)
                if r == z3.unsat:
                    return "discharged", time.time() - t0, None, "z3 (quantifier-free hypotheses)"
    if qf_goal and nonlin:
        # phase N: pure polynomial abstraction decided by nlsat
        if nlsat_refutes(qf + lemq, goal2, max(5000, budget * 500)):
            return "discharged", time.time() - t0, None, "z3 nlsat (polynomial abstraction of the quantifier-free hypotheses)"
    if qf_goal and nonlin:
        # phase A': products abstracted to an uninterpreted commutative function (linear arithmetic + congruence only),
        # on the quantifier-free hypotheses (which include the instances at the goal's constants)
        try:
            base = qf + [l for l in lem0 if not has_quantifier(l)]
            for fl in (False, True):       # keep the grouping of nested products / flatten them to a canonical form
                ab = abstract_mul(base + [goal2], flatten=fl)
                s_ = z3.Solver()
                s_.set("timeout", 6000)
                s_.add(*ab[:-1])
                s_.add(z3.Not(ab[-1]))
                if hard_check(s_, 6000, tag="umul") == z3.unsat:
                    return "discharged", time.time() - t0, None, "z3 (products abstracted to an uninterpreted function)"
        except z3.Z3Exception:
            pass
    if any(is_specfun_def(d) for d in defs):
        # phase B0: E-matching with the named specification functions kept opaque (congruence and the hints only; their - often
        # nonlinear - bodies stay folded)
        defs_ns = [d for d in defs if not is_specfun_def(d)]
        gi_ns = ground_def_instances(list(hyps2) + [goal2], defs_ns) if defs_ns else []
        lem_ns = spec_function_lemmas(list(hyps2) + gi_ns, goal2, nonlinear=False) + gi_ns
        for seed in (0, 1):
            r, s = _check(hyps2, goal2, lem_ns, 8000, mbqi=False, seed=seed, rlimit=RL, opaque=True)
            if r == z3.unsat:
                return "discharged", time.time() - t0, None, "z3 (specification functions opaque)"
    for seed in range(K):
        r, s = _check(hyps2, goal2, lem0, 20000, mbqi=False, seed=seed, rlimit=RL)
        if r == z3.unsat:
            return "discharged", time.time() - t0, None, "z3"
        if seed == 0 and qf_goal:
            r, s = _check(qf, goal2, lemq, max(15000, budget * 500), mbqi=False, rlimit=RL * 20)
            if r == z3.unsat:
                return "discharged", time.time() - t0, None, "z3 (quantifier-free hypotheses)"
        if seed == 1 and len(lem) != len(lem0):
            r, s = _check(hyps2, goal2, lem, 20000, mbqi=False, rlimit=RL)
            if r == z3.unsat:
                return "discharged", time.time() - t0, None, "z3"
    for seed in ((0,) if SECOND_PASS else (0, 7, 23, 101)):
        r, s = _check(hyps2, goal2, lem, budget * 250, seed=seed, rlimit=RL * 2)
        if r != z3.unknown:
            break
    if r == z3.unsat:
        return "discharged", time.time() - t0, None, "z3"
    if r == z3.sat:
        partial = bool(ground_apps(list(hyps2) + [goal2], "Sum_")) or bool(ground_apps(list(hyps2) + [goal2], "rdiv"))
        return "failed", time.time() - t0, s.model(), "z3 sat" + (" (recursive/partial spec functions instantiated finitely: model needs confirmation by replay)" if partial else "")
    return "undecided", time.time() - t0, None, "z3 unknown: %s" % s.reason_unknown()


def is_specfun_app_def(g):
    """ground instance spec_F(args) == body of a named specification function's definition"""
    return z3.is_eq(g) and z3.is_app(g.arg(0)) and g.arg(0).decl().name().startswith("spec_")


def goal_is_nonlinear(t):
    """does the goal mention real division by a symbolic term or a product of two non-numerals?"""
    seen = set()
    stack = [t]
    while stack:
        u = stack.pop()
        if u.get_id() in seen or not z3.is_app(u):
            continue
        seen.add(u.get_id())
        k = u.decl().kind()
        if u.decl().name() == "rdiv":
            return True
        if k == z3.Z3_OP_MUL and sum(1 for c in u.children() if not (z3.is_rational_value(c) or z3.is_int_value(c))) >= 2:
            return True
        stack.extend(u.children())
    return False


def has_quantifier(t):
    seen = set()
    stack = [t]
    while stack:
        u = stack.pop()
        if u.get_id() in seen:
            continue
        seen.add(u.get_id())
        if z3.is_quantifier(u):
            return True
        if z3.is_app(u):
            stack.extend(u.children())
    return False


def to_smt2(hyps, goal):
    s = z3.Solver()
    hyps, goal = skolemize(hyps, goal)
    s.add(*hyps)
    s.add(z3.Not(goal))
    lem = spec_function_lemmas(hyps, goal)
    s.add(*lem)
    s.add(*relevant_defs(list(hyps) + [goal] + lem))
    return s.to_smt2()


# =============================================================================== evaluator
class Eval:
    def __init__(self, ctx, module, spec=False):
        self.ctx = ctx
        self.module = module
        self.spec = spec

    # ----------------------------------------------------------- spec entry points
    def spec_bool(self, text, st):
        node = ast.parse(text.strip(), mode="eval").body
        v = self.ev(node, st)
        return b2t(v)

    def spec_val(self, text, st):
        node = ast.parse(text.strip(), mode="eval").body
        return self.ev(node, st)

    # ----------------------------------------------------------- safety obligations (code mode only)
    def need(self, kind, st, cond, node):
        if self.spec:
            return
        src = ""
        try:
            src = ast.unparse(node)
        except Exception:
            pass
        self.ctx.oblig("%s: %s" % (kind, src), st, cond, node)
        st.pc.append(cond)   # after a check, execution continues only if it held

    # ----------------------------------------------------------- dispatcher
    def ev(self, n, st):
        m = getattr(self, "ev_" + type(n).__name__, None)
        if m is None:
            raise Unsupported("expression %s at line %s" % (type(n).__name__, getattr(n, "lineno", "?")))
        return m(n, st)

    def ev_Constant(self, n, st):
        v = n.value
        if v is Ellipsis:
            raise Unsupported("bare Ellipsis")
        if isinstance(v, bool):
            return BoolV(v)
        if isinstance(v, int):
            return Num(z3.IntVal(v))
        if isinstance(v, float):
            return Num(z3.RealVal(repr(v)))
        if v is None:
            return NoneV()
        if isinstance(v, str):
            return StrV(v)
        raise Unsupported("constant %r" % (v,))

    def ev_Name(self, n, st):
        if n.id in st.env:
            return st.env[n.id]
        if self.spec and n.id in self.ctx.contract.get("spec_funs", {}):
            return FnV(qual="specfun." + n.id)
        if self.spec and n.id in self.ctx.contract.get("macros", {}):
            return self.spec_val(self.ctx.contract["macros"][n.id], st)
        if n.id in self.module.imports:
            return ModV(self.module.imports[n.id])
        if n.id in self.module.funcs:
            return FnV(qual="%s.%s" % (self.module.name, n.id))
        if n.id in self.module.enums:
            return ClsV("%s.%s" % (self.module.name, n.id))
        if n.id in ("True", "False"):
            return BoolV(n.id == "True")
        g = self.module.globals.get(n.id)
        if not self.spec and isinstance(g, ast.Constant) and isinstance(g.value, (int, float)) and not isinstance(g.value, bool):
            # module-level numeric constant (assigned once at module level; reassignment elsewhere is not tracked: A-SEM)
            if sum(1 for b in self.module.tree.body if isinstance(b, ast.Assign) and any(isinstance(t, ast.Name) and t.id == n.id for t in b.targets)) == 1:
                return self.ev(g, st)
        from . import npmodel
        if n.id in npmodel.BUILTINS:
            return FnV(qual="builtins." + n.id)
        if self.spec and n.id in npmodel.SPEC_BUILTINS:
            return FnV(qual="spec." + n.id)
        raise Unsupported("unresolved name %r at line %s" % (n.id, getattr(n, "lineno", "?")))

    def ev_Attribute(self, n, st):
        if n.attr == "eps" and isinstance(n.value, ast.Call) and isinstance(n.value.func, ast.Attribute) and n.value.func.attr == "finfo":
            return Num(z3.RealVal(2) ** -52 if False else z3.Q(1, 2 ** 52))     # np.finfo(float).eps = 2^-52
        base = self.ev(n.value, st)
        if isinstance(base, ModV):
            q = base.qual + "." + n.attr
            if q.startswith(PKG + "."):
                parts = q.split(".")
                if len(parts) == 2:
                    return ModV(q)
                m = load_module(parts[1])
                if len(parts) == 3:
                    if parts[2] in m.funcs:
                        return FnV(qual=q)
                    if parts[2] in m.enums:
                        return ClsV(q)
                    raise Unsupported("attribute %s does not resolve" % q)
            # library module / function
            return ModOrFn(q)
        if isinstance(base, ModOrFn):
            return ModOrFn(base.qual + "." + n.attr)
        if isinstance(base, ClsV):
            if n.attr in enum_members(base.qual):
                return enum_const(base.qual, n.attr)
            raise Unsupported("enum member %s.%s" % (base.qual, n.attr))
        if isinstance(base, Seq) and n.attr == "shape":
            k = len(base.esh.args) if base.esh.kind == "tup" else None
            return Tup([Num(base.n)] + ([Num(k)] if k else []))
        return BoundMethod(base, n.attr, n.value)

    def ev_Tuple(self, n, st):
        return Tup([self.ev(e, st) for e in n.elts])

    def ev_List(self, n, st):
        return Tup([self.ev(e, st) for e in n.elts], islist=True)

    def ev_UnaryOp(self, n, st):
        v = self.ev(n.operand, st)
        if isinstance(n.op, ast.Not):
            return BoolV(z3.Not(b2t(v)))
        if isinstance(n.op, ast.USub):
            if isinstance(v, Seq):
                return Seq.from_fn(v.n, v.esh, lambda k: Num(-as_num(v.at(k)).t))
            return Num(-as_num(v).t)
        if isinstance(n.op, ast.UAdd):
            return v
        raise Unsupported("unary op")

    def ev_BoolOp(self, n, st):
        terms = []
        mark = len(st.pc)
        for e in n.values:
            v = self.ev(e, st)
            t = b2t(v)
            terms.append(t)
            st.pc.append(t if isinstance(n.op, ast.And) else z3.Not(t))
        del st.pc[mark:]
        return BoolV(z3.And(*terms) if isinstance(n.op, ast.And) else z3.Or(*terms))

    def ev_IfExp(self, n, st):
        c = b2t(self.ev(n.test, st))
        if not self.spec:
            # only one feasible arm under the path condition: no merge needed
            if not self.ctx.feasible(st, z3.Not(c)):
                return self.ev(n.body, st)
            if not self.ctx.feasible(st, c):
                return self.ev(n.orelse, st)
        mark = len(st.pc)
        st.pc.append(c)
        a = self.ev(n.body, st)
        del st.pc[mark:]
        st.pc.append(z3.Not(c))
        b = self.ev(n.orelse, st)
        del st.pc[mark:]
        return ite_val(c, a, b)

    def ev_Compare(self, n, st):
        left = self.ev(n.left, st)
        if len(n.ops) == 1 and not isinstance(n.ops[0], (ast.In, ast.NotIn, ast.Is, ast.IsNot)):
            right0 = self.ev(n.comparators[0], st)
            arr_l, arr_r = isinstance(left, Seq) and left.kind == "array", isinstance(right0, Seq) and right0.kind == "array"
            # in specifications only the unambiguous array-vs-scalar form is elementwise (array == array stays structural equality)
            if ((arr_l or arr_r) and not self.spec) or (self.spec and ((arr_l and isinstance(right0, Num)) or (arr_r and isinstance(left, Num)))):
                # NumPy elementwise comparison -> boolean array
                sa = left if isinstance(left, Seq) else None
                sb = right0 if isinstance(right0, Seq) else None
                if sa is not None and sb is not None:
                    self.need("broadcast: equal lengths", st, sa.n == sb.n, n)
                op = n.ops[0]

                def elem(k):
                    return BoolV(self.compare(op, sa.at(k) if sa is not None else left, sb.at(k) if sb is not None else right0, st, n))
                return Seq.from_fn((sa or sb).n, BOOL, elem)
            return BoolV(self.compare(n.ops[0], left, right0, st, n))
        terms = []
        for op, rn in zip(n.ops, n.comparators):
            right = self.ev(rn, st)
            terms.append(self.compare(op, left, right, st, n))
            left = right
        return BoolV(terms[0] if len(terms) == 1 else z3.And(*terms))

    def compare(self, op, a, b, st, node):
        if isinstance(op, (ast.Is, ast.IsNot, ast.Eq, ast.NotEq)):
            eq = self.equal(a, b, isinstance(op, (ast.Is, ast.IsNot)))
            return eq if isinstance(op, (ast.Is, ast.Eq)) else z3.Not(eq)
        if isinstance(op, (ast.In, ast.NotIn)):
            t = self.member(a, b)
            return t if isinstance(op, ast.In) else z3.Not(t)
        if isinstance(a, Opt) or isinstance(b, Opt):
            a = self.unopt(a, st, node)
            b = self.unopt(b, st, node)
        if isinstance(a, Seq) or isinstance(b, Seq):
            raise Unsupported("elementwise comparison outside ev_Compare")
        x, y, _ = num_pair(as_num(a), as_num(b))
        if isinstance(op, ast.Lt):
            return x < y
        if isinstance(op, ast.LtE):
            return x <= y
        if isinstance(op, ast.Gt):
            return x > y
        if isinstance(op, ast.GtE):
            return x >= y
        raise Unsupported("comparison operator")

    def unopt(self, v, st, node):
        if isinstance(v, Opt):
            self.need("None not used as a number", st, z3.Not(v.isnone), node)
            return v.val
        return v

    def equal(self, a, b, identity=False):
        if isinstance(a, NoneV) or isinstance(b, NoneV):
            o = b if isinstance(a, NoneV) else a
            if isinstance(o, NoneV):
                return z3.BoolVal(True)
            if isinstance(o, Opt):
                return o.isnone
            return z3.BoolVal(False)
        if isinstance(a, Opt) and not identity:
            return z3.And(z3.Not(a.isnone), self.equal(a.val, b))
        if isinstance(b, Opt) and not identity:
            return z3.And(z3.Not(b.isnone), self.equal(a, b.val))
        if isinstance(a, EnumV) and isinstance(b, EnumV):
            if a.cls != b.cls:
                return z3.BoolVal(False)
            return a.t == b.t
        if isinstance(a, BoolV) and isinstance(b, BoolV):
            return a.t == b.t
        if isinstance(a, (Num, BoolV)) and isinstance(b, (Num, BoolV)):
            x, y, _ = num_pair(as_num(a), as_num(b))
            return x == y
        if isinstance(a, Tup) and isinstance(b, Tup):
            if len(a.items) != len(b.items):
                return z3.BoolVal(False)
            return z3.And(*[self.equal(x, y) for x, y in zip(a.items, b.items)]) if a.items else z3.BoolVal(True)
        if isinstance(a, Opaque) and isinstance(b, Opaque):
            return a.t == b.t
        if isinstance(a, StrV) and isinstance(b, StrV):
            return z3.BoolVal(a.s == b.s)
        if isinstance(a, Seq) and isinstance(b, Seq) and self.spec:
            return seq_eq(a, b)
        if isinstance(a, Seq) and isinstance(b, Tup) and self.spec:
            ts = [a.n == len(b.items)] + [self.equal(a.at(z3.IntVal(i)), it) for i, it in enumerate(b.items)]
            return z3.And(*ts)
        raise Unsupported("equality between %r and %r" % (a, b))

    def member(self, x, c):
        if isinstance(c, Opt) and isinstance(c.val, DictV):
            c = c.val
        if isinstance(c, DictV):
            from . import npmodel
            return npmodel.dict_has(c, x)
        if isinstance(c, Seq):
            k = z3.Int(fresh_name("m"))
            return z3.Exists([k], z3.And(k >= 0, k < c.n, self.equal(c.at(k), x)))
        if isinstance(c, Tup):
            return z3.Or(*[self.equal(x, it) for it in c.items]) if c.items else z3.BoolVal(False)
        raise Unsupported("membership in %r" % (c,))

    # ----------------------------------------------------------- arithmetic
    def ev_BinOp(self, n, st):
        a = self.ev(n.left, st)
        b = self.ev(n.right, st)
        return self.binop(n.op, a, b, st, n)

    def binop(self, op, a, b, st, node):
        if isinstance(a, Opt) or isinstance(b, Opt):
            a = self.unopt(a, st, node)
            b = self.unopt(b, st, node)
        if isinstance(a, Seq) or isinstance(b, Seq):
            return self.seq_binop(op, a, b, st, node)
        if isinstance(a, Tup) and isinstance(b, Tup) and isinstance(op, ast.Add) and not (a.isrow or b.isrow):
            return Tup(a.items + b.items, islist=a.islist)
        if (isinstance(a, Tup) and a.isrow) or (isinstance(b, Tup) and b.isrow):
            # rows of 2-D arrays (and the 1-D arrays built from them): elementwise arithmetic with broadcasting
            r = self.elem_binop(op, a, b, st, node)
            if isinstance(r, Tup):
                r.isrow = True
            return r
        a = as_num(a)
        b = as_num(b)
        x, y, ints = num_pair(a, b)
        if isinstance(op, ast.Add):
            return Num(x + y)
        if isinstance(op, ast.Sub):
            return Num(x - y)
        if isinstance(op, ast.Mult):
            return Num(x * y)
        if isinstance(op, ast.Div):
            self.need("divisor non-zero", st, y != 0, node)
            return Num(real_div(a.real(), b.real()))
        if isinstance(op, ast.FloorDiv):
            self.need("divisor non-zero", st, y != 0, node)
            if ints:
                return Num(py_floordiv(x, y))
            raise Unsupported("float floor division")
        if isinstance(op, ast.Mod):
            self.need("divisor non-zero", st, y != 0, node)
            if ints:
                return Num(z3.If(y > 0, x % y, -((-x) % (-y))))
            raise Unsupported("float modulo")
        if isinstance(op, ast.Pow):
            return Num(power(a, b))
        raise Unsupported("binary operator %s" % type(op).__name__)

    def seq_binop(self, op, a, b, st, node):
        # elementwise arithmetic with broadcasting of scalars / rows
        sa = a if isinstance(a, Seq) else None
        sb = b if isinstance(b, Seq) else None
        if sa is not None and sa.kind == "list" or sb is not None and sb.kind == "list":
            raise Unsupported("arithmetic on a Python list")
        n = sa.n if sa is not None else sb.n
        if sa is not None and sb is not None:
            self.need("broadcast: equal lengths", st, sa.n == sb.n, node)
        esh = (sa or sb).esh

        def elem(k):
            x = sa.at(k) if sa is not None else a
            y = sb.at(k) if sb is not None else b
            return self.elem_binop(op, x, y, st, node)
        probe = elem(z3.Int(fresh_name("probe")))
        return Seq.from_fn(n, shape_of(probe), elem)

    def elem_binop(self, op, x, y, st, node):
        if isinstance(x, Tup) or isinstance(y, Tup):
            if isinstance(x, Tup) and isinstance(y, Tup):
                if len(x.items) != len(y.items):
                    raise Unsupported("row arity mismatch in broadcast")
                return Tup([self.elem_binop(op, p, q, st, node) for p, q in zip(x.items, y.items)])
            if isinstance(x, Tup):
                return Tup([self.elem_binop(op, p, y, st, node) for p in x.items])
            return Tup([self.elem_binop(op, x, q, st, node) for q in y.items])
        if isinstance(op, (ast.Div, ast.FloorDiv, ast.Mod)) and not self.spec:
            # elementwise division: NumPy yields inf/nan instead of raising; A-NAN assumption applies
            ev2 = Eval(self.ctx, self.module, spec=True)
            return ev2.binop(op, x, y, st, node)
        return self.binop(op, x, y, st, node)

    # ----------------------------------------------------------- subscripts
    def ev_Subscript(self, n, st):
        base = self.ev(n.value, st)
        return self.subscript(base, n.slice, st, n)

    def index_term(self, seq_n, i, st, node, what="index"):
        """Python index semantics (negative wraps) with bounds obligation."""
        t = as_num(i)
        if not t.is_int:
            raise Unsupported("non-integer index")
        t = t.t
        if z3.is_int_value(t):
            c = t.as_long()
            if c >= 0:
                self.need("%s in bounds" % what, st, z3.IntVal(c) < seq_n, node)
                return z3.IntVal(c)
            self.need("%s in bounds" % what, st, z3.IntVal(-c) <= seq_n, node)
            return z3.simplify(seq_n + c)
        if self.spec:
            # specification indices are plain (no negative wrap-around): the contract author keeps them in range
            return t
        self.need("%s in bounds" % what, st, z3.And(-seq_n <= t, t < seq_n), node)
        if not self.ctx.feasible(st, t < 0):
            return t
        return z3.If(t < 0, t + seq_n, t)

    def clamp(self, seq_n, bound, default, st):
        """slice bound clamped to [0, n] (Python semantics)."""
        if bound is None:
            return default
        t = as_num(self.ev(bound, st))
        if not t.is_int:
            raise Unsupported("non-integer slice bound")
        t = t.t
        if z3.is_int_value(t):
            c = t.as_long()
            if c == 0:
                return z3.IntVal(0)
            if c < 0:
                r = seq_n + c
                return z3.If(r < 0, z3.IntVal(0), r)
            return z3.If(seq_n < c, seq_n, z3.IntVal(c))
        # symbolic: negative wraps, then clamp
        if self.spec:
            return t      # plain bounds in specifications (kept in range by the contract author)
        if self.ctx.feasible(st, t < 0):
            w = z3.If(t < 0, t + seq_n, t)
        else:
            w = t
        lo_ok = not self.ctx.feasible(st, w < 0)
        hi_ok = not self.ctx.feasible(st, w > seq_n)
        if not lo_ok:
            w = z3.If(w < 0, z3.IntVal(0), w)
        if not hi_ok:
            w = z3.If(w > seq_n, seq_n, w)
        return w

    def do_slice(self, base, sl, st):
        if sl.step is not None:
            raise Unsupported("slice step")
        lo = self.clamp(base.n, sl.lower, z3.IntVal(0), st)
        hi = self.clamp(base.n, sl.upper, base.n, st)
        if self.spec:
            f = base.fn
            return Seq(z3.simplify(hi - lo), z3.simplify(base.off + lo), base.arrs, base.esh, base.kind, None,
                       (lambda k: f(lo + k)) if f is not None else None)
        return base.slice(lo, hi)

    def subscript(self, base, sl, st, node):
        if isinstance(base, Opt):
            base = self.unopt(base, st, node)
        if isinstance(base, Seq):
            if isinstance(sl, ast.Slice):
                return self.do_slice(base, sl, st)
            if isinstance(sl, ast.Tuple):
                if len(sl.elts) != 2:
                    raise Unsupported("n-d index")
                r, c = sl.elts
                if isinstance(r, ast.Constant) and r.value is Ellipsis:
                    r = ast.Slice(None, None, None)
                cv = self.ev(c, st)
                if not (isinstance(cv, Num) and z3.is_int_value(cv.t)):
                    raise Unsupported("non-constant column index")
                col = cv.t.as_long()
                if base.esh.kind != "tup":
                    raise Unsupported("2-d index on 1-d sequence")
                if col < 0:
                    col += len(base.esh.args)
                if not (0 <= col < len(base.esh.args)):
                    self.need("column in bounds", st, z3.BoolVal(False), node)
                if isinstance(r, ast.Slice):
                    rows = self.do_slice(base, r, st)
                    return rows.column(col)
                rv = self.ev(r, st)
                i = self.index_term(base.n, rv, st, node, "row index")
                return base.at(i).items[col]
            iv = self.ev(sl, st)
            if isinstance(iv, Seq):
                return self.fancy(base, iv, st, node)
            if isinstance(iv, Tup):
                # a[[0,-1]] : fancy index with a literal list
                items = []
                for it in iv.items:
                    j = self.index_term(base.n, it, st, node)
                    items.append(base.at(j))
                return Tup(items, islist=True)
            i = self.index_term(base.n, iv, st, node)
            return base.at(i)
        if isinstance(base, Tup):
            if isinstance(sl, ast.Tuple) and len(sl.elts) == 2 and isinstance(sl.elts[0], ast.Constant) and sl.elts[0].value is Ellipsis:
                sl = sl.elts[1]        # row[..., k] is row[k]
            if isinstance(sl, ast.Slice):
                lo = self.const_int(sl.lower, st, 0)
                hi = self.const_int(sl.upper, st, len(base.items))
                return Tup(base.items[lo:hi], islist=base.islist)
            iv = as_num(self.ev(sl, st))
            if z3.is_int_value(iv.t):
                c = iv.t.as_long()
                if not (-len(base.items) <= c < len(base.items)):
                    self.need("tuple index in bounds", st, z3.BoolVal(False), node)
                    raise Unsupported("tuple index out of range")
                return base.items[c]
            self.need("tuple index in bounds", st, z3.And(iv.t >= 0, iv.t < len(base.items)), node)
            r = base.items[-1]
            for k in range(len(base.items) - 2, -1, -1):
                r = ite_val(iv.t == k, base.items[k], r)
            return r
        if isinstance(base, DictV):
            from . import npmodel
            return npmodel.dict_get(self, base, self.ev(sl, st), st, node)
        raise Unsupported("subscript of %r" % (base,))

    def const_int(self, node, st, default):
        if node is None:
            return default
        v = as_num(self.ev(node, st))
        if not z3.is_int_value(v.t):
            raise Unsupported("non-constant tuple slice")
        return v.t.as_long()

    def fancy(self, base, idx, st, node):
        if idx.esh.kind == "bool":
            from . import npmodel
            return npmodel.mask_select(self, base, idx, st, node)
        if idx.esh.kind != "int":
            raise Unsupported("fancy index with non-integer array")
        if not self.spec:
            k = z3.Int(fresh_name("k"))
            e = as_num(idx.at(k)).t
            self.need("fancy index in bounds", st,
                      z3.ForAll([k], z3.Implies(z3.And(k >= 0, k < idx.n), z3.And(e >= -base.n, e < base.n))), node)
        def elem(k):
            e = as_num(idx.at(k)).t
            return base.at(z3.If(e < 0, e + base.n, e))
        return Seq.from_fn(idx.n, base.esh, elem)

    # ----------------------------------------------------------- calls
    def ev_Call(self, n, st):
        from . import npmodel
        f = self.ev(n.func, st)
        return npmodel.call(self, f, n, st)

    def ev_Dict(self, n, st):
        if n.keys:
            raise Unsupported("non-empty dict literal")
        return DictV.empty()

    def ev_Lambda(self, n, st):
        return FnV(node=n, env=dict(st.env))

    def ev_JoinedStr(self, n, st):
        return StrV("<fstring>")

    def ev_ListComp(self, n, st):
        from . import npmodel
        return npmodel.listcomp(self, n, st)

    def ev_GeneratorExp(self, n, st):
        from . import npmodel
        return npmodel.listcomp(self, n, st)


class StrV(Val):
    def __init__(self, s):
        self.s = s


class ModOrFn(Val):
    """library module or library function, by qualified name (resolved lazily)."""
    def __init__(self, qual):
        self.qual = qual


class BoundMethod(Val):
    def __init__(self, recv, name, recv_node):
        self.recv = recv
        self.name = name
        self.recv_node = recv_node


def seq_eq(a, b):
    k = z3.Int(fresh_name("e"))
    ta = flatten_val(a.esh, a.at(k))
    tb = flatten_val(a.esh, b.at(k)) if a.esh == b.esh else None
    if tb is None:
        # compare with coercion int->real
        fa, fb = flatten_shape(a.esh), flatten_shape(b.esh)
        if len(fa) != len(fb):
            return z3.BoolVal(False)
        ta2, tb2 = [], []
        va, vb = a.at(k), b.at(k)
        def fl(v):
            if isinstance(v, Tup):
                out = []
                for i in v.items:
                    out.extend(fl(i))
                return out
            return [v]
        for x, y in zip(fl(va), fl(vb)):
            p, q, _ = num_pair(as_num(x), as_num(y))
            ta2.append(p)
            tb2.append(q)
        ta, tb = ta2, tb2
    body = z3.And(*[x == y for x, y in zip(ta, tb)])
    return z3.And(a.n == b.n, z3.ForAll([k], z3.Implies(z3.And(k >= 0, k < a.n), body)))


def ite_val(c, a, b):
    if isinstance(a, Num) and isinstance(b, Num):
        x, y, _ = num_pair(a, b)
        return Num(z3.If(c, x, y))
    if isinstance(a, BoolV) and isinstance(b, BoolV):
        return BoolV(z3.If(c, a.t, b.t))
    if isinstance(a, EnumV) and isinstance(b, EnumV) and a.cls == b.cls:
        return EnumV(a.cls, z3.If(c, a.t, b.t))
    if isinstance(a, Tup) and isinstance(b, Tup) and len(a.items) == len(b.items):
        return Tup([ite_val(c, x, y) for x, y in zip(a.items, b.items)], a.islist)
    if isinstance(a, NoneV) and isinstance(b, NoneV):
        return a
    if isinstance(a, NoneV) or isinstance(b, NoneV):
        o = b if isinstance(a, NoneV) else a
        if isinstance(o, Opt):
            return Opt(z3.If(c, z3.BoolVal(True), o.isnone) if isinstance(a, NoneV) else z3.If(c, o.isnone, z3.BoolVal(True)), o.val)
        return Opt(c if isinstance(a, NoneV) else z3.Not(c), o)
    if isinstance(a, Seq) and isinstance(b, Seq) and a.esh == b.esh:
        return Seq(z3.If(c, a.n, b.n), z3.If(c, a.off, b.off), [z3.If(c, x, y) for x, y in zip(a.arrs, b.arrs)],
                   a.esh, a.kind)
    raise Unsupported("conditional merge of %r and %r" % (a, b))


def power(a, b):
    if z3.is_int_value(b.t) or z3.is_rational_value(b.t):
        q = b.t.as_fraction() if z3.is_rational_value(b.t) else None
        e = b.t.as_long() if z3.is_int_value(b.t) else (q.numerator if q.denominator == 1 else None)
        if e is not None and 0 <= e <= 4:
            base = a.t if (a.is_int and b.is_int) else a.real()
            r = z3.IntVal(1) if (a.is_int and b.is_int) else z3.RealVal(1)
            for _ in range(e):
                r = r * base
            return r
    from . import npmodel
    return npmodel.uf_real("pow", a.real(), b.real())


# =============================================================================== executor
class Exec:
    def __init__(self, ctx, module, loops, loop_ord, top=False):
        self.ctx = ctx
        self.module = module
        self.loops = loops
        self.loop_ord = loop_ord
        self.ev = Eval(ctx, module, spec=False)
        self.sev = Eval(ctx, module, spec=True)

    def block(self, stmts, states):
        out = {"normal": [], "ret": [], "brk": [], "cont": []}
        cur = list(states)
        for s in stmts:
            nxt = []
            for st in cur:
                r = self.stmt(s, st)
                nxt.extend(r["normal"])
                out["ret"].extend(r["ret"])
                out["brk"].extend(r["brk"])
                out["cont"].extend(r["cont"])
            cur = nxt
            if len(cur) > 400:
                raise Unsupported("path explosion (>400 live paths)")
            if not cur:
                break
        out["normal"] = cur
        return out

    def stmt(self, s, st):
        m = getattr(self, "st_" + type(s).__name__, None)
        if m is None:
            raise Unsupported("statement %s at line %s" % (type(s).__name__, s.lineno))
        return m(s, st)

    @staticmethod
    def R(normal=(), ret=(), brk=(), cont=()):
        return {"normal": list(normal), "ret": list(ret), "brk": list(brk), "cont": list(cont)}

    # ---------------------------------------------------------------- simple statements
    def st_Pass(self, s, st):
        return self.R([st])

    def st_Expr(self, s, st):
        v = s.value
        if isinstance(v, ast.Constant):
            return self.R([st])       # docstring / string statement
        if isinstance(v, ast.Call):
            f = v.func
            # logger.*(...) is dropped (documented in DESIGN 2.1)
            if isinstance(f, ast.Attribute) and isinstance(f.value, ast.Name) and f.value.id == "logger":
                return self.R([st])
            if isinstance(f, ast.Name) and f.id == "print":
                return self.R([st])
        self.ev.ev(v, st)
        return self.R([st])

    def st_Return(self, s, st):
        v = self.ev.ev(s.value, st) if s.value is not None else NoneV()
        return self.R(ret=[(st, v, s)])

    def st_Break(self, s, st):
        return self.R(brk=[st])

    def st_Continue(self, s, st):
        return self.R(cont=[st])

    def st_Assign(self, s, st):
        try:
            v = self.ev.ev(s.value, st)
        except Unsupported:
            # the value is outside the subset; the frame obligation of the store is still generated
            for t in s.targets:
                if isinstance(t, ast.Subscript):
                    try:
                        b = self.ev.ev(t.value, st)
                        if isinstance(b, Seq):
                            self.frame(b, st, s)
                    except Unsupported:
                        pass
            raise
        for t in s.targets:
            self.assign(t, v, st, s)
        return self.R([st])

    def st_AnnAssign(self, s, st):
        if s.value is not None:
            self.assign(s.target, self.ev.ev(s.value, st), st, s)
        return self.R([st])

    def st_AugAssign(self, s, st):
        cur = self.ev.ev(s.target, st)
        v = self.ev.ev(s.value, st)
        r = self.ev.binop(s.op, cur, v, st, s)
        self.assign(s.target, r, st, s)
        return self.R([st])

    def assign(self, target, v, st, node):
        if isinstance(target, ast.Name):
            declared = self.local_shape(target.id)
            if declared is not None:
                v = self.conform(v, declared, st)
            st.env[target.id] = v
            after = self.ctx.contract.get("after", {}).get(target.id) if self.loops is self.ctx.contract.get("loops", {}) else None
            if after and isinstance(node, ast.Assign):
                # proof steps attached to "right after this variable is assigned" (skipped on paths where a step mentions
                # names that do not exist there)
                try:
                    run_steps(self.ctx, self.sev, st, after, "after %s =" % target.id, node)
                except Unsupported as e:
                    if "unresolved name" not in str(e):
                        raise
            return
        if isinstance(target, (ast.Tuple, ast.List)):
            items = self.unpack(v, len(target.elts), st, node, target)
            for t, it in zip(target.elts, items):
                self.assign(t, it, st, node)
            return
        if isinstance(target, ast.Subscript):
            base_node = target.value
            base = self.ev.ev(base_node, st)
            if isinstance(base, Seq):
                self.frame(base, st, node)
                if isinstance(target.slice, ast.Slice) or (isinstance(target.slice, ast.Tuple) and
                                                             any(isinstance(e, ast.Slice) for e in target.slice.elts)):
                    raise Unsupported("slice store")
                iv = self.ev.ev(target.slice, st)
                if isinstance(iv, Seq):
                    from . import npmodel
                    newb = npmodel.mask_store(self.ev, base, iv, v, st, node)
                else:
                    i = self.ev.index_term(base.n, iv, st, node, "store index")
                    newb = base.store(i, v)
                self.assign(base_node, newb, st, node)
                return
            if isinstance(base, Tup):
                iv = as_num(self.ev.ev(target.slice, st))
                if z3.is_int_value(iv.t):
                    items = list(base.items)
                    items[iv.t.as_long()] = v
                    self.assign(base_node, Tup(items, base.islist), st, node)
                    return
            if isinstance(base, DictV):
                from . import npmodel
                if base.root is not None and base.root not in self.ctx.contract.get("modifies", []):
                    self.ev.need("frame: argument '%s' is not modified" % base.root, st, z3.BoolVal(False), node)
                newd = npmodel.dict_set(self.ev, base, self.ev.ev(target.slice, st), v, st, node)
                self.assign(base_node, newd, st, node)
                return
            raise Unsupported("store into %r" % (base,))
        raise Unsupported("assignment target %s" % type(target).__name__)

    def frame(self, base, st, node):
        """frame obligation: a store / in-place mutation must not reach memory of an argument that
        the contract does not list under 'modifies' (C20 purity; also keeps the value model sound)."""
        if base.root is not None and base.root not in self.ctx.contract.get("modifies", []):
            self.ev.need("frame: argument '%s' is not modified" % base.root, st, z3.BoolVal(False), node)

    def local_shape(self, name):
        loc = self.ctx.contract.get("locals", {}) if self.loops is self.ctx.contract.get("loops", {}) else {}
        if name in loc:
            return parse_shape(loc[name])
        return None

    def conform(self, v, sh, st):
        """bring a freshly assigned value to its declared local shape (e.g. [] -> empty Seq)."""
        if sh.kind == "seq" and isinstance(v, Tup):
            esh = sh.args[0]
            self.ctx._declare_enums(esh)
            arrs = [z3.K(z3.IntSort(), default_term(l)) for l in flatten_shape(esh)]
            s = Seq(z3.IntVal(0), z3.IntVal(0), arrs, esh, "list")
            for it in v.items:
                s = s.append(it)
            return s
        if sh.kind == "real" and isinstance(v, Num) and v.is_int:
            return Num(v.real())
        if sh.kind == "opt" and not isinstance(v, Opt):
            if isinstance(v, NoneV):
                facts = []
                inner = fresh(sh.args[0], "optv", facts)
                st.pc.extend(facts)
                return Opt(z3.BoolVal(True), inner)
            return Opt(z3.BoolVal(False), v)
        return v

    def unpack(self, v, k, st, node, target=None):
        if isinstance(v, Tup):
            if len(v.items) != k:
                self.ev.need("unpack arity", st, z3.BoolVal(False), node)
                raise Unsupported("unpack arity mismatch")
            return v.items
        if isinstance(v, Seq):
            self.ev.need("unpack arity (%d values)" % k, st, v.n == k, node)
            return [v.at(z3.IntVal(i)) for i in range(k)]
        raise Unsupported("unpack of %r" % (v,))

    def st_Delete(self, s, st):
        for t in s.targets:
            if isinstance(t, ast.Subscript):
                base = self.ev.ev(t.value, st)
                if isinstance(base, DictV):
                    from . import npmodel
                    newd = npmodel.dict_del(self.ev, base, self.ev.ev(t.slice, st), st, s)
                    self.assign(t.value, newd, st, s)
                    continue
            raise Unsupported("del")
        return self.R([st])

    # ---------------------------------------------------------------- if
    def st_If(self, s, st):
        c = b2t(self.ev.ev(s.test, st))
        out = self.R()
        base = len(st.pc)
        branches = []
        for cond, body in ((c, s.body), (z3.Not(c), s.orelse)):
            cond = z3.simplify(cond)
            if z3.is_false(cond):
                continue
            if not z3.is_true(cond) and not self.ctx.feasible(st, cond):
                self.ctx.pruned.append("line %d: branch %s infeasible" % (s.lineno, "else" if body is s.orelse else "then"))
                continue
            s2 = st.fork()
            s2.pc.append(cond)
            r = self.block(body, [s2]) if body else self.R([s2])
            branches.append(r)
        # path merging: two branches that both fall through with one state each and differ only in scalar variables are
        # joined into one state (values become if-then-else terms, the branch facts a disjunction) - keeps the number of
        # paths, and with it the number of obligations, linear in the number of such conditionals
        if len(branches) == 2 and all(len(r["normal"]) == 1 and not r["ret"] and not r["brk"] and not r["cont"] for r in branches):
            a, b = branches[0]["normal"][0], branches[1]["normal"][0]
            merged = self.merge(st, base, c, a, b)
            if merged is not None:
                return self.R([merged])
        for r in branches:
            for k in out:
                out[k].extend(r[k])
        return out

    SCALAR = (Num, BoolV, EnumV, NoneV)

    def merge(self, st, base, c, a, b):
        if set(a.env) != set(b.env):
            return None
        env = {}
        for k in a.env:
            va, vb = a.env[k], b.env[k]
            if va is vb:
                env[k] = va
                continue
            ok = isinstance(va, self.SCALAR) and isinstance(vb, self.SCALAR) or \
                (isinstance(va, Tup) and isinstance(vb, Tup) and len(va.items) == len(vb.items)
                 and all(isinstance(i, self.SCALAR) for i in va.items + vb.items))
            if not ok and self.ctx.contract.get("merge_seqs") and isinstance(va, Seq) and isinstance(vb, Seq) \
                    and str(va.esh) == str(vb.esh) and va.kind == vb.kind and va.root == vb.root and len(va.arrs) == len(vb.arrs):
                # opt-in: sequences of the same shape merge to ite-arrays (one path instead of two after `if c: xs.append(..)`)
                env[k] = Seq(z3.If(c, va.n, vb.n), z3.If(c, va.off, vb.off), [z3.If(c, x, y) for x, y in zip(va.arrs, vb.arrs)],
                             va.esh, va.kind, va.root)
                continue
            if not ok:
                return None
            try:
                env[k] = ite_val(c, va, vb)
            except Unsupported:
                return None
        da, db = a.pc[base:], b.pc[base:]
        m = State(env, list(st.pc[:base]))
        m.pc.append(z3.Or(z3.And(*da) if da else z3.BoolVal(True), z3.And(*db) if db else z3.BoolVal(True)))
        return m

    # ---------------------------------------------------------------- loops
    def modified(self, node):
        """names whose value may change in the loop (syntactic)."""
        names = set()
        MUT = ("append", "pop", "sort", "extend", "insert", "remove", "clear", "reverse")

        def root(e):
            while isinstance(e, (ast.Subscript, ast.Attribute)):
                e = e.value
            return e.id if isinstance(e, ast.Name) else None

        def tgt(t):
            if isinstance(t, ast.Name):
                names.add(t.id)
            elif isinstance(t, (ast.Tuple, ast.List)):
                for e in t.elts:
                    tgt(e)
            elif isinstance(t, ast.Starred):
                tgt(t.value)
            else:
                r = root(t)
                if r:
                    names.add(r)
        for n in ast.walk(node):
            if isinstance(n, ast.Assign):
                for t in n.targets:
                    tgt(t)
            elif isinstance(n, (ast.AugAssign, ast.AnnAssign)):
                tgt(n.target)
            elif isinstance(n, ast.For):
                tgt(n.target)
            elif isinstance(n, ast.Delete):
                for t in n.targets:
                    tgt(t)
            elif isinstance(n, ast.Call):
                f = n.func
                if isinstance(f, ast.Attribute) and f.attr in MUT:
                    r = root(f.value)
                    if r:
                        names.add(r)
                # callee with a modifies clause
                q = self.static_callee(f)
                if q and q in self.ctx.registry:
                    c = self.ctx.registry[q]
                    mods = c.get("modifies", [])
                    if mods:
                        _, fd = find_function(q)
                        ps = [a.arg for a in fd.args.args]
                        for i, a in enumerate(n.args):
                            if i < len(ps) and ps[i] in mods:
                                r = root(a)
                                if r:
                                    names.add(r)
                        for kw in n.keywords:
                            if kw.arg in mods:
                                r = root(kw.value)
                                if r:
                                    names.add(r)
        return names

    def static_callee(self, f):
        try:
            if isinstance(f, ast.Name):
                if f.id in self.module.funcs:
                    return "%s.%s" % (self.module.name, f.id)
            if isinstance(f, ast.Attribute) and isinstance(f.value, ast.Name) and f.value.id in self.module.imports:
                q = self.module.imports[f.value.id] + "." + f.attr
                return q
        except Exception:
            pass
        return None

    def ghost_written(self, spec):
        return {g.split("=", 1)[0].strip() for g in spec.get("ghost_end", [])}

    def loop_spec(self, node):
        k = self.loop_ord.get(id(node))
        spec = self.loops.get(k)
        if spec is None:
            raise Unsupported("loop %s (line %d) has no invariant in the contract" % (k, node.lineno))
        return k, spec

    def havoc(self, st, names, k):
        s2 = st.fork()
        facts = []
        for nm in sorted(names):
            if nm in st.env:
                old = st.env[nm]
                declared = self.local_shape(nm)
                sh = declared or shape_of(old)
                kind = old.kind if isinstance(old, Seq) else "array"
                s2.env[nm] = fresh(sh, nm, facts, kind)
        s2.pc.extend(facts)
        return s2

    def ghost_end(self, spec, st):
        """ghost assignments 'name = expr' executed at the end of every body path (they may read the
        loop-head values _h_<name>); they only write ghost variables, so they cannot affect the code"""
        for g in spec.get("ghost_end", []):
            name, expr = g.split("=", 1)
            name = name.strip()
            if name not in self.ctx.contract.get("ghost_vars", {}):
                raise Unsupported("ghost assignment to non-ghost variable %s" % name)
            st.env[name] = self.sev.spec_val(expr, st)

    def snapshot(self, st, names):
        """loop-head values of the modified variables, visible to hints as _h_<name>"""
        for nm in names:
            if nm in st.env:
                st.env["_h_" + nm] = st.env[nm]

    def hints(self, k, spec, st, node):
        """auto-active hints: each is proved in the end-of-body state from the previous ones, then assumed"""
        for i, (h, tag) in enumerate(self.ctx.clauses(spec.get("hints", []))):
            try:
                g = self.sev.spec_bool(h, st)
            except Unsupported as e:
                if "unresolved name" in str(e):
                    continue        # the hint talks about a local that does not exist on this path
                raise
            self.ctx.cur_tag = tag
            self.ctx.oblig("loop %d: hint: %s" % (k, h), st, g, node, h)
            self.ctx.cur_tag = None
            st.pc.append(g)

    def check_inv(self, tag, spec, st, node):
        for i, (inv, ptag) in enumerate(self.ctx.clauses(spec.get("inv", []))):
            g = self.sev.spec_bool(inv, st)
            self.ctx.cur_tag = ptag
            self.ctx.oblig("%s: %s" % (tag, inv), st, g, node, inv)
            self.ctx.cur_tag = None

    def assume_inv(self, spec, st):
        for inv, _ in self.ctx.clauses(spec.get("inv", [])):
            st.pc.append(self.sev.spec_bool(inv, st))

    def st_While(self, s, st):
        k, spec = self.loop_spec(s)
        self.check_inv("loop %d: invariant on entry" % k, spec, st, s)
        head = self.havoc(st, self.modified(s) | self.ghost_written(spec), k)
        self.assume_inv(spec, head)
        self.snapshot(head, self.modified(s) | self.ghost_written(spec))
        var0 = None
        if "var" in spec:
            var0 = as_num(self.sev.spec_val(spec["var"], head)).t
        else:
            raise Unsupported("while loop %d has no variant" % k)
        # guard (may add safety obligations)
        gstate = head.fork()
        g = b2t(self.ev.ev(s.test, gstate))
        out = self.R()
        # body
        if self.ctx.feasible(gstate, g):
            b = gstate.fork()
            b.pc.append(g)
            r = self.block(s.body, [b])
            for e in r["normal"] + r["cont"]:
                self.ghost_end(spec, e)
                self.hints(k, spec, e, s)
                self.check_inv("loop %d: invariant preserved" % k, spec, e, s)
                v1 = as_num(self.sev.spec_val(spec["var"], e)).t
                self.ctx.oblig("loop %d: variant decreases and is bounded: %s" % (k, spec["var"]), e,
                               z3.And(var0 >= 0, v1 < var0), s)
            out["ret"].extend(r["ret"])
            out["normal"].extend(r["brk"])
        # exit
        if self.ctx.feasible(gstate, z3.Not(g)):
            e = gstate.fork()
            e.pc.append(z3.Not(g))
            out["normal"].append(e)
        if s.orelse:
            raise Unsupported("while-else")
        return out

    def st_For(self, s, st):
        k, spec = self.loop_spec(s)
        itname = "_it%d" % k
        # iteration space
        it_kind, space = self.iter_space(s.iter, st, s)
        N = space["count"]
        st = st.fork()
        st.env[itname] = Num(z3.IntVal(0))
        st.env["_n%d" % k] = Num(N)
        self.check_inv("loop %d: invariant on entry" % k, spec, st, s)
        mods = self.modified(s) | self.ghost_written(spec)
        mods.add(itname)
        head = self.havoc(st, mods - self.target_names(s.target), k)
        it = head.env[itname].t
        head.pc.append(z3.And(it >= 0, it <= N))
        for nm in self.target_names(s.target):
            head.env.pop(nm, None) if nm not in st.env else None
        self.assume_inv(spec, head)
        self.snapshot(head, mods)
        out = self.R()
        # body
        if self.ctx.feasible(head, it < N):
            b = head.fork()
            b.pc.append(it < N)
            self.assign(s.target, space["elem"](it), b, s)
            r = self.block(s.body, [b])
            for e in r["normal"] + r["cont"]:
                e = e.fork()
                e.env[itname] = Num(it + 1)
                self.ghost_end(spec, e)
                self.hints(k, spec, e, s)
                self.check_inv("loop %d: invariant preserved" % k, spec, e, s)
            out["ret"].extend(r["ret"])
            out["normal"].extend(r["brk"])
        if self.ctx.feasible(head, it == N):
            e = head.fork()
            e.pc.append(it == N)
            # Python leaves the loop variable bound to the last element when N > 0
            out["normal"].append(e)
        if s.orelse:
            raise Unsupported("for-else")
        return out

    def target_names(self, t):
        if isinstance(t, ast.Name):
            return {t.id}
        if isinstance(t, (ast.Tuple, ast.List)):
            r = set()
            for e in t.elts:
                r |= self.target_names(e)
            return r
        return set()

    def iter_space(self, it, st, node):
        if isinstance(it, ast.Call) and isinstance(it.func, ast.Name) and it.func.id == "range":
            args = [as_num(self.ev.ev(a, st)) for a in it.args]
            for a in args:
                if not a.is_int:
                    self.ev.need("range() argument is an integer", st, z3.BoolVal(False), node)
                    raise Unsupported("range of non-integer")
            if len(args) == 1:
                lo, hi, step = z3.IntVal(0), args[0].t, 1
            elif len(args) == 2:
                lo, hi, step = args[0].t, args[1].t, 1
            else:
                lo, hi = args[0].t, args[1].t
                if not z3.is_int_value(args[2].t) or args[2].t.as_long() <= 0:
                    raise Unsupported("range step must be a positive constant")
                step = args[2].t.as_long()
            if step == 1:
                cnt = z3.If(hi > lo, hi - lo, z3.IntVal(0))
            else:
                cnt = z3.If(hi > lo, (hi - lo + (step - 1)) / step, z3.IntVal(0))
            cnt = z3.simplify(cnt)
            return "range", {"count": cnt, "elem": lambda i: Num(z3.simplify(lo + i * step))}
        v = self.ev.ev(it, st)
        if isinstance(v, Seq):
            return "seq", {"count": v.n, "elem": lambda i: v.at(i)}
        if isinstance(v, Tup):
            items = v.items
            def elem(i):
                r = items[-1]
                for k in range(len(items) - 2, -1, -1):
                    r = ite_val(i == k, items[k], r)
                return r
            if not items:
                return "seq", {"count": z3.IntVal(0), "elem": lambda i: NoneV()}
            return "seq", {"count": z3.IntVal(len(items)), "elem": elem}
        raise Unsupported("iteration over %r" % (v,))


def default_term(sh):
    if sh.kind == "int":
        return z3.IntVal(0)
    if sh.kind == "real":
        return z3.RealVal(0)
    if sh.kind == "bool":
        return z3.BoolVal(False)
    return z3.Const(fresh_name("dflt"), leaf_sort(sh))
