import sys, importlib, time, os
sys.path.insert(0, '/verif')
from kvc import core
mods = sys.argv[1].split(','); q = sys.argv[2]; prop=sys.argv[3]
reg = {}
for m in mods: reg.update(importlib.import_module('contracts.'+m).C)
ctx = core.Ctx(reg[q].get('function', q.split('#')[0]), reg[q], reg, budget=float(os.environ.get('B','10')), label=q, prop=prop)
try: ctx.run()
except core.Unsupported as e: print("UNSUPPORTED:", e)
for o in ctx.obligs:
    if o.status!='discharged': print("%-10s %5.2fs L%-4d %s" % (o.status, o.time, o.lineno, o.name[:170]), o.reason)
print(len(ctx.obligs), 'obligations', sum(o.status=='discharged' for o in ctx.obligs), 'discharged; solver %.2fs'%(ctx.solver_time), sorted(getattr(ctx,'callees',[])), sorted(ctx.inlined))
