"""Assumed contracts of builtins / numpy / math / uts used by the package ([A], DESIGN 2.4),
call dispatch (package function -> contract or inlining, library function -> model here),
and the specification-language builtins (forall, implies, old, ...).

Every entry of LIB is an *assumption* about a dependency; each one that is actually
reached while verifying a function is recorded in ctx.trusted and ends up in the
evidence's trusted_base.  The runtime tier validates them against the installed NumPy.
"""
import ast
import z3

from .values import (Unsupported, Sh, INT, REAL, BOOL, parse_shape, Val, Num, BoolV, NoneV, EnumV, Opaque, Tup,
                     Opt, FnV, ModV, ClsV, Seq, DictV, shape_of, fresh, fresh_name, flatten_shape, flatten_val,
                     leaf_sort)
from . import core
from .core import as_num, b2t, num_pair, ite_val, StrV, ModOrFn, BoundMethod, State, PKG

BUILTINS = {"len", "int", "float", "abs", "min", "max", "range", "sorted", "all", "any", "list", "tuple", "sum",
            "print", "bool", "zip", "enumerate", "round"}
SPEC_BUILTINS = {"forall", "forall2", "exists", "implies", "iff", "ite", "old", "seq_eq", "is_none", "opt_val",
                 "sqrt", "Sum", "row", "real", "floor", "is_perm_rows", "count_true", "uf", "ufa", "min2", "max2",
                 "absr", "lo_of", "sq", "trunc", "SumRange", "store", "log", "pigeonhole"}

_ufs = {}


def uf(name, ret_sort, *terms):
    sig = (name,) + tuple(t.sort().name() + str(t.sort()) for t in terms) + (str(ret_sort),)
    if sig not in _ufs:
        _ufs[sig] = z3.Function(name, *([t.sort() for t in terms] + [ret_sort]))
    return _ufs[sig](*terms)


def uf_real(name, *terms):
    return uf(name, z3.RealSort(), *terms)


def flat_terms(v):
    """z3 terms identifying a value (for uninterpreted functions)."""
    if isinstance(v, (Num, BoolV, EnumV, Opaque)):
        return [v.t]
    if isinstance(v, Tup):
        out = []
        for i in v.items:
            out.extend(flat_terms(i))
        return out
    if isinstance(v, Seq):
        return v.key()
    if isinstance(v, NoneV):
        return []
    if isinstance(v, FnV):
        return [fn_tag(v)]
    if isinstance(v, Opt):
        return [v.isnone] + flat_terms(v.val)
    raise Unsupported("value %r cannot be an argument of an uninterpreted function" % (v,))


_fn_tags = {}


def fn_tag(f):
    q = f.qual or "<lambda@%d>" % f.node.lineno
    if q not in _fn_tags:
        _fn_tags[q] = len(_fn_tags) + 1
    return z3.IntVal(_fn_tags[q])


# =============================================================================== argument binding
def bind_args(ev, fdef, callee_mod, node, st):
    """bind call arguments to the callee's parameters (positional, keyword, defaults)."""
    params = [a.arg for a in fdef.args.args]
    vals = {}
    nodes = {}
    if len(node.args) > len(params):
        raise Unsupported("too many positional arguments for %s" % fdef.name)
    for p, a in zip(params, node.args):
        if isinstance(a, ast.Starred):
            raise Unsupported("star-args")
        vals[p] = ev.ev(a, st)
        nodes[p] = a
    for kw in node.keywords:
        if kw.arg is None or kw.arg not in params:
            raise Unsupported("keyword %r not accepted by %s" % (kw.arg, fdef.name))
        if kw.arg in vals:
            raise Unsupported("duplicate argument %s" % kw.arg)
        vals[kw.arg] = ev.ev(kw.value, st)
        nodes[kw.arg] = kw.value
    defaults = fdef.args.defaults
    dparams = params[len(params) - len(defaults):]
    for p, d in zip(dparams, defaults):
        if p not in vals:
            dev = core.Eval(ev.ctx, callee_mod, spec=ev.spec)
            vals[p] = dev.ev(d, State({}, st.pc))
    for p in params:
        if p not in vals:
            raise Unsupported("missing argument %s in call to %s" % (p, fdef.name))
    return params, vals, nodes


def bind_values(ev, fdef, callee_mod, argvals, st):
    params = [a.arg for a in fdef.args.args]
    vals = dict(zip(params, argvals))
    defaults = fdef.args.defaults
    dparams = params[len(params) - len(defaults):]
    for p, d in zip(dparams, defaults):
        if p not in vals:
            dev = core.Eval(ev.ctx, callee_mod, spec=ev.spec)
            vals[p] = dev.ev(d, State({}, st.pc))
    for p in params:
        if p not in vals:
            raise Unsupported("missing argument %s in call to %s" % (p, fdef.name))
    return params, vals


# =============================================================================== call dispatch
def call(ev, f, node, st):
    if isinstance(f, BoundMethod):
        return call_method(ev, f, node, st)
    if isinstance(f, ModOrFn):
        fn = LIB.get(f.qual)
        if fn is None:
            raise Unsupported("no model for library function %s" % f.qual)
        if not ev.spec:
            ev.ctx.trusted.add("lib:" + f.qual)
        args = [ev.ev(a, st) for a in node.args]
        kw = {k.arg: ev.ev(k.value, st) for k in node.keywords}
        return fn(ev, args, kw, st, node)
    if isinstance(f, FnV):
        q = f.qual
        if q is None:
            return call_lambda(ev, f, [ev.ev(a, st) for a in node.args], st, node)
        if q.startswith("builtins."):
            fn = LIB.get(q)
            if fn is None:
                raise Unsupported("no model for builtin %s" % q)
            args = [ev.ev(a, st) for a in node.args]
            kw = {k.arg: ev.ev(k.value, st) for k in node.keywords}
            return fn(ev, args, kw, st, node)
        if q.startswith("spec."):
            return SPEC[q[5:]](ev, node, st)
        if q.startswith("specfun."):
            return call_specfun(ev, q[8:], node, st)
        if q.startswith("<param:"):
            return call_param(ev, f, node, st)
        if q.startswith(PKG + "."):
            return call_pkg(ev, q, node, st)
    raise Unsupported("call of %r at line %s" % (f, getattr(node, "lineno", "?")))


_specfun_cache = {}


def call_specfun(ev, name, node, st):
    """named specification function declared in the contract: spec_funs = {name: ([args], 'Real'|'Int'|'Bool', body)}.
    It is an uninterpreted symbol of its integer/real arguments with the definitional axiom
    forall args. F(args) == body(args) (recorded in values.DEFS, pattern F(args)); names other than the arguments
    refer to the function's *parameters at entry* (so the body must not mention mutable locals)."""
    from . import values
    ctx = ev.ctx
    argn, rsh, body = ctx.contract["spec_funs"][name]
    rs = parse_shape(rsh)
    key = (id(ctx), getattr(ctx, "specfun_scope", 0), name)
    if key not in _specfun_cache:
        vs = [z3.Int(fresh_name(a)) for a in argn]
        env = dict(ctx.old_env)
        for a, v in zip(argn, vs):
            env[a] = Num(v)
        s2 = State(env, [])
        values.SCOPE.extend(vs)
        try:
            sev = core.Eval(ctx, ctx.module, spec=True)
            bv = sev.spec_val(body, s2)
        finally:
            del values.SCOPE[len(values.SCOPE) - len(vs):]
        from .values import leaf_term
        # the same definition (same name, same body over the same terms) reached through another scope - e.g. a callee's contract
        # instantiated at the caller's arguments - is the same symbol
        canon = (id(ctx), name, z3.substitute(leaf_term(rs, bv), *[(v, z3.Int("__sfarg%d" % i)) for i, v in enumerate(vs)]).sexpr())
        if canon in _specfun_cache:
            _specfun_cache[key] = _specfun_cache[canon]
        elif vs:
            f = z3.Function(fresh_name("spec_" + name), *([z3.IntSort()] * len(vs) + [leaf_sort(rs)]))
            app = f(*vs)
            values.DEFS.append((f.name(), z3.ForAll(vs, app == leaf_term(rs, bv), patterns=[app])))
        else:
            c0 = z3.Const(fresh_name("spec_" + name), leaf_sort(rs))
            f = lambda c0=c0: c0
            values.DEFS.append((c0.decl().name(), c0 == leaf_term(rs, bv)))
        if canon not in _specfun_cache:
            _specfun_cache[key] = _specfun_cache[canon] = f
    f = _specfun_cache[key]
    args = [as_num(ev.ev(a, st)).t for a in node.args]
    from .values import leaf_val
    return leaf_val(rs, f(*args))


def call_fn_values(ev, f, argvals, st, node):
    """call a callable *value* with already evaluated arguments (sort keys, comparators, detectors)."""
    if f.qual is None:
        return call_lambda(ev, f, argvals, st, node)
    if f.qual.startswith(PKG + "."):
        return call_pkg(ev, f.qual, node, st, argvals=argvals)
    raise Unsupported("call of function value %r" % (f,))


def call_lambda(ev, f, argvals, st, node):
    lam = f.node
    names = [a.arg for a in lam.args.args]
    if len(names) != len(argvals):
        raise Unsupported("lambda arity")
    s2 = State(dict(f.env), st.pc)
    for nm, v in zip(names, argvals):
        s2.env[nm] = v
    return ev.ev(lam.body, s2)


def call_param(ev, f, node, st):
    """call through a callable parameter: use its abstract contract (contract['callables'][name])."""
    pname = f.qual[len("<param:"):-1]
    spec = ev.ctx.contract.get("callables", {}).get(pname)
    if spec is None:
        raise Unsupported("callable parameter %s has no abstract contract" % pname)
    args = [ev.ev(a, st) for a in node.args]
    env = dict(ev.ctx.old_env)          # the abstract contract may mention the enclosing function's parameters / ghosts
    env.update({"a%d" % i: v for i, v in enumerate(args)})
    return apply_contract(ev, "<param:%s>" % pname, spec, env, {}, st, node, ev.module, tag=f)


def call_pkg(ev, q, node, st, argvals=None):
    ctx = ev.ctx
    callee_mod, fdef = core.find_function(q)
    if argvals is None:
        params, vals, nodes = bind_args(ev, fdef, callee_mod, node, st)
    else:
        params, vals = bind_values(ev, fdef, callee_mod, argvals, st)
        nodes = {}
    c = ctx.registry.get(ctx.contract.get("use", {}).get(q, q))
    if ev.spec:
        # package functions used inside specifications are pure: inline them
        c = None if (c is None or not c.get("spec_as_contract")) else c
    if c is not None and not c.get("inline"):
        ctx.trusted.discard("")
        if not ev.spec:
            ctx.notes.append("call %s by contract" % q)
            ctx.callees = getattr(ctx, "callees", set())
            ctx.callees.add(q)
        return apply_contract(ev, q, c, vals, nodes, st, node, callee_mod)
    # inline
    return inline_call(ev, q, callee_mod, fdef, vals, st, node, c)


def apply_contract(ev, q, c, vals, nodes, st, node, callee_mod, tag=None):
    ctx = ev.ctx
    vals = dict(vals)
    # shapes of parameters: coerce literal lists etc.
    for p, shs in c.get("params", {}).items():
        if p in vals:
            sh = parse_shape(shs)
            ctx._declare_enums(sh)
            vals[p] = conform_arg(ev, vals[p], sh, st)
    if tag is not None:
        vals["_self"] = tag
    sev = core.Eval(ctx, callee_mod, spec=True)
    env = dict(vals)
    s2 = State(env, st.pc)
    if not ev.spec:
        for i, (r, _) in enumerate(ctx.clauses(c.get("requires", []))):
            g = sev.spec_bool(r, s2)
            ctx.oblig("precondition of %s [%d]: %s" % (q, i, r), st, g, node, r)
            st.pc.append(g)
    # result + modified parameters
    facts = []
    rsh = c.get("returns")
    res = NoneV()
    if c.get("returns_expr"):
        # summary contracts may *define* the result (e.g. as an uninterpreted function of the argument contents):
        # the value is that term itself, so that later uses are syntactically transparent
        res = sev.spec_val(c["returns_expr"], s2)
    elif rsh:
        sh = parse_shape(rsh)
        ctx._declare_enums(sh)
        res = fresh(sh, q.split(".")[-1] + ".res", facts, "list" if c.get("returns_list") else "array")
    post_env = dict(env)
    old_env = dict(env)
    for p in c.get("modifies", []):
        old = env[p]
        post_env[p] = fresh(shape_of(old), p + "_post", facts, old.kind if isinstance(old, Seq) else "array")
    post_env["result"] = res
    # the callee's ghost variables are existential witnesses of its postcondition (its own proof exhibits them): fresh symbols here
    for gname, gsh in c.get("ghost_vars", {}).items():
        if gname not in post_env:
            post_env[gname] = fresh(parse_shape(gsh), q.split(".")[-1] + "." + gname, [], "array")
    st.pc.extend(facts)
    s3 = State(post_env, st.pc)
    saved = ctx.old_env
    saved_contract, saved_scope = ctx.contract, getattr(ctx, "specfun_scope", 0)
    ctx.old_env = old_env
    if c.get("spec_funs"):
        # the callee's named specification functions are defined over *its* parameters: evaluate them in the callee's
        # environment, with fresh symbols per call site
        ctx.contract = dict(saved_contract, spec_funs=c["spec_funs"])
        ctx.call_counter = getattr(ctx, "call_counter", 0) + 1
        ctx.specfun_scope = ctx.call_counter
    try:
        for e, _ in ctx.clauses(c.get("ensures", []) + c.get("ensures_assumed", [])):
            st.pc.append(sev.spec_bool(e, s3))
    finally:
        ctx.old_env = saved
        ctx.contract = saved_contract
        ctx.specfun_scope = saved_scope
    # write back modified arguments
    for p in c.get("modifies", []):
        an = nodes.get(p)
        if an is None:
            continue
        if isinstance(an, ast.Name):
            st.env[an.id] = post_env[p]
        else:
            raise Unsupported("modified argument is not a plain variable")
    return res


def conform_arg(ev, v, sh, st):
    if sh.kind == "seq" and isinstance(v, Tup):
        esh = sh.args[0]
        arrs = [z3.K(z3.IntSort(), core.default_term(l)) for l in flatten_shape(esh)]
        s = Seq(z3.IntVal(0), z3.IntVal(0), arrs, esh, "list")
        for it in v.items:
            s = s.append(it)
        return s
    if sh.kind == "seq" and isinstance(v, Seq) and v.esh != sh.args[0]:
        esh = sh.args[0]
        if len(flatten_shape(esh)) == len(flatten_shape(v.esh)):
            return Seq.from_fn(v.n, esh, lambda k: v.at(k), v.kind)
    if sh.kind == "real" and isinstance(v, Num) and v.is_int:
        return Num(v.real())
    if sh.kind == "opt" and not isinstance(v, Opt):
        if isinstance(v, NoneV):
            facts = []
            inner = fresh(sh.args[0], "optv", facts)
            st.pc.extend(facts)
            return Opt(z3.BoolVal(True), inner)
        return Opt(z3.BoolVal(False), conform_arg(ev, v, sh.args[0], st))
    return v


def inline_call(ev, q, callee_mod, fdef, vals, st, node, c):
    ctx = ev.ctx
    if ctx.depth > 6:
        raise Unsupported("inlining depth exceeded at %s" % q)
    ctx.inlined.add(q)
    loops = (c or {}).get("loops", {})
    loop_ord = {}
    for k, n in enumerate(core.Ctx._loops_in_order(fdef)):
        loop_ord[id(n)] = k
    ex = core.Exec(ctx, callee_mod, loops, loop_ord)
    ex.ev.spec = ev.spec
    s0 = State(dict(vals), list(st.pc))
    base = len(st.pc)
    ctx.depth += 1
    try:
        outs = ex.block(fdef.body, [s0])
    finally:
        ctx.depth -= 1
    rets = [(s, v) for s, v, _ in outs["ret"]] + [(s, NoneV()) for s in outs["normal"]]
    if not rets:
        # no feasible path returns: the call site is unreachable (or always raises)
        st.pc.append(z3.BoolVal(False))
        return NoneV()
    if len(rets) == 1:
        s, v = rets[0]
        st.pc.extend(s.pc[base:])
        return v
    conds = []
    for s, v in rets:
        d = s.pc[base:]
        conds.append(z3.And(*d) if d else z3.BoolVal(True))
    st.pc.append(z3.Or(*conds))
    res = rets[-1][1]
    for (s, v), cnd in list(zip(rets, conds))[-2::-1]:
        res = ite_val(cnd, v, res)
    return res


# =============================================================================== methods
def call_method(ev, bm, node, st):
    recv, name = bm.recv, bm.name
    args = [ev.ev(a, st) for a in node.args]
    kw = {k.arg: ev.ev(k.value, st) for k in node.keywords}

    def writeback(newv):
        if ev.spec:
            raise Unsupported("mutation inside a specification")
        ex = core.Exec(ev.ctx, ev.module, {}, {})
        if isinstance(recv, Seq):
            ex.frame(recv, st, node)
        ex.assign(bm.recv_node, newv, st, node)

    if isinstance(recv, Seq):
        if name == "append":
            if recv.kind != "list":
                raise Unsupported("append on array")
            writeback(recv.append(args[0]))
            return NoneV()
        if name == "pop":
            if args:
                raise Unsupported("pop(i)")
            ev.need("pop from a non-empty list", st, recv.n > 0, node)
            v = recv.at(recv.n - 1)
            writeback(Seq(z3.simplify(recv.n - 1), recv.off, recv.arrs, recv.esh, recv.kind))
            return v
        if name == "sort":
            newv = sort_model(ev, recv, kw, st, node)
            writeback(newv)
            return NoneV()
        if name == "extend":
            # extending by a fixed-width row / tuple / literal list: one append per item
            if recv.kind != "list" or not isinstance(args[0], Tup):
                raise Unsupported("extend")
            newv = recv
            for it in args[0].items:
                newv = newv.append(it)
            writeback(newv)
            return NoneV()
        if name in ("max", "min", "sum", "argmax", "argmin", "argsort", "mean", "all", "any"):
            f = LIB["numpy." + name]
            if not ev.spec:
                ev.ctx.trusted.add("lib:numpy.ndarray.%s" % name)
            return f(ev, [recv] + args, kw, st, node)
        if name == "astype":
            return lib_astype(ev, recv, args, st, node)
        if name in ("flatten", "copy"):
            return recv
        if name == "tolist":
            return Seq(recv.n, recv.off, recv.arrs, recv.esh, "list")
    if isinstance(recv, DictV) and name == "keys":
        raise Unsupported("dict.keys")
    raise Unsupported("method %s on %r" % (name, recv))


def sort_model(ev, recv, kw, st, node):
    """list.sort(key=..., reverse=False): permutation, keys non-decreasing (stable).  [A]"""
    ev.ctx.trusted.add("lib:list.sort")
    rev = kw.get("reverse")
    if rev is not None and not (isinstance(rev, BoolV) and z3.is_false(z3.simplify(rev.t))):
        if isinstance(rev, BoolV) and z3.is_true(z3.simplify(rev.t)):
            descending = True
        else:
            raise Unsupported("sort(reverse=<symbolic>)")
    else:
        descending = False
    keyf = kw.get("key")
    facts = []
    out = fresh(Sh("seq", [recv.esh]), "sorted", facts, recv.kind)
    st.pc.extend(facts)
    n = recv.n
    st.pc.append(out.n == n)
    # permutation with inverse
    P = z3.Array(fresh_name("perm"), z3.IntSort(), z3.IntSort())
    Q = z3.Array(fresh_name("perminv"), z3.IntSort(), z3.IntSort())
    k = z3.Int(fresh_name("k"))
    rng = z3.And(k >= 0, k < n)
    st.pc.append(z3.ForAll([k], z3.Implies(rng, z3.And(P[k] >= 0, P[k] < n, Q[P[k]] == k))))
    st.pc.append(z3.ForAll([k], z3.Implies(rng, z3.And(Q[k] >= 0, Q[k] < n, P[Q[k]] == k))))
    eqs = [x == y for x, y in zip(flatten_val(recv.esh, out.at(k)), flatten_val(recv.esh, recv.at(P[k])))]
    st.pc.append(z3.ForAll([k], z3.Implies(rng, z3.And(*eqs))))
    # the same fact read backwards (every old element occurs in the result, at position Q[k])
    eqs2 = [x == y for x, y in zip(flatten_val(recv.esh, recv.at(k)), flatten_val(recv.esh, out.at(Q[k])))]
    st.pc.append(z3.ForAll([k], z3.Implies(rng, z3.And(*eqs2))))
    a, b = z3.Int(fresh_name("a")), z3.Int(fresh_name("b"))

    def keyof(v):
        if keyf is None:
            return v
        return call_fn_values(ev, keyf, [v], st, node)
    ka, kb = keyof(out.at(a)), keyof(out.at(b))
    if isinstance(ka, Tup):
        raise Unsupported("tuple sort keys")
    x, y, _ = num_pair(as_num(ka), as_num(kb))
    st.pc.append(z3.ForAll([a, b], z3.Implies(z3.And(a >= 0, a < b, b < n), (x >= y) if descending else (x <= y))))
    # consequences of "sorted permutation" at a few ground positions (first / last / last-but-one old element): the first
    # result is a lower bound and the last an upper bound of those elements (instances of recv[k] == out[Q[k]] + sortedness)
    if keyf is None and recv.esh.kind in ("int", "real"):
        for kk in (z3.IntVal(0), z3.simplify(n - 1), z3.simplify(n - 2)):
            inr = z3.And(kk >= 0, kk < n)
            e = as_num(recv.at(kk)).t
            lo_, hi_ = as_num(out.at(z3.IntVal(0))).t, as_num(out.at(z3.simplify(n - 1))).t
            st.pc.append(z3.Implies(inr, (lo_ >= e) if descending else (lo_ <= e)))
            st.pc.append(z3.Implies(inr, (hi_ <= e) if descending else (hi_ >= e)))
    if keyf is None and recv.esh.kind in ("int", "real") and not descending:
        # sorting an already sorted sequence changes nothing (the sorted arrangement of a multiset is unique)  [A]
        a2, b2, k2 = z3.Int(fresh_name("a")), z3.Int(fresh_name("b")), z3.Int(fresh_name("k"))
        already = z3.ForAll([a2, b2], z3.Implies(z3.And(a2 >= 0, a2 < b2, b2 < n), as_num(recv.at(a2)).t <= as_num(recv.at(b2)).t))
        same = z3.ForAll([k2], z3.Implies(z3.And(k2 >= 0, k2 < n), as_num(out.at(k2)).t == as_num(recv.at(k2)).t))
        st.pc.append(z3.Implies(already, same))
    # a permutation does not change the sum of any integer column (multiset invariance)  [A]
    for la, lb, lsh in zip(out.arrs, recv.arrs, flatten_shape(recv.esh)):
        if lsh.kind == "int":
            s_out = sum_term(la, out.off, z3.simplify(out.off + n))
            s_in = sum_term(lb, recv.off, z3.simplify(recv.off + n))
            st.pc.append(s_out == s_in)
    ev.ctx.last_perm = (P, Q)
    return out


# =============================================================================== library models
LIB = {}


def lib(*names):
    def deco(f):
        for n in names:
            LIB[n] = f
        return f
    return deco


@lib("builtins.len")
def lib_len(ev, args, kw, st, node):
    v = args[0]
    if isinstance(v, Seq):
        return Num(v.n)
    if isinstance(v, Tup):
        return Num(z3.IntVal(len(v.items)))
    raise Unsupported("len of %r" % (v,))


@lib("builtins.int")
def lib_int(ev, args, kw, st, node):
    v = as_num(ev.unopt(args[0], st, node))
    if v.is_int:
        return v
    return Num(z3.simplify(core.py_int_of_real(v.t)))


@lib("builtins.float")
def lib_float(ev, args, kw, st, node):
    return Num(as_num(args[0]).real())


@lib("builtins.bool")
def lib_bool(ev, args, kw, st, node):
    return BoolV(b2t(args[0]))


@lib("builtins.abs", "math.fabs", "numpy.abs", "numpy.absolute", "numpy.fabs")
def lib_abs(ev, args, kw, st, node):
    v = args[0]
    if isinstance(v, Tup) and all(isinstance(x, Num) for x in v.items):
        return Tup([Num(z3.If(x.t >= 0, x.t, -x.t)) for x in v.items], islist=getattr(v, "islist", False), isrow=getattr(v, "isrow", False))
    if isinstance(v, Seq):
        return Seq.from_fn(v.n, v.esh, lambda k: map_leaves(v.at(k), lambda x: Num(z3.If(x.t >= 0, x.t, -x.t))))
    v = as_num(v)
    r = z3.If(v.t >= 0, v.t, -v.t)
    if node is not None and isinstance(node.func, ast.Attribute) and node.func.attr == "fabs":
        r = z3.If(v.real() >= 0, v.real(), -v.real())
    return Num(r)


def map_leaves(v, f):
    if isinstance(v, Tup):
        return Tup([map_leaves(i, f) for i in v.items], v.islist)
    return f(as_num(v))


@lib("builtins.min", "builtins.max")
def lib_minmax(ev, args, kw, st, node):
    name = node.func.id if isinstance(node.func, ast.Name) else "min"
    if len(args) == 1:
        v = args[0]
        if isinstance(v, Seq):
            return LIB["numpy." + name](ev, args, kw, st, node)
        if isinstance(v, Tup):
            args = v.items
        else:
            raise Unsupported("min/max of %r" % (v,))
    if "key" in kw:
        raise Unsupported("min/max with key")
    r = as_num(args[0])
    for a in args[1:]:
        a = as_num(a)
        x, y, _ = num_pair(r, a)
        r = Num(z3.If(x <= y, x, y) if name == "min" else z3.If(x >= y, x, y))
    return r


@lib("builtins.sorted")
def lib_sorted(ev, args, kw, st, node):
    """sorted(seq, key=..., reverse=...): a new list, sorted permutation of the argument (the argument is not modified)"""
    v = args[0]
    if isinstance(v, Tup):
        v = conform_arg(ev, v, Sh("seq", [shape_of(v.items[0])]), st) if v.items else None
    if not isinstance(v, Seq):
        raise Unsupported("sorted of %r" % (args[0],))
    src = Seq(v.n, v.off, v.arrs, v.esh, "list")
    return sort_model(ev, src, kw, st, node)


@lib("numpy.array", "numpy.asarray")
def lib_array(ev, args, kw, st, node):
    v = args[0]
    if isinstance(v, Seq):
        return Seq(v.n, v.off, v.arrs, v.esh, "array")     # np.array copies: no root
    if isinstance(v, Tup):
        if not v.items:
            raise Unsupported("np.array([]) of unknown element type")
        esh = shape_of(v.items[0])
        if esh.kind == "int" and any(shape_of(i).kind == "real" for i in v.items):
            esh = REAL
        if esh.kind == "tup":
            # rows: unify int/real per column
            cols = []
            for c in range(len(esh.args)):
                kinds = {shape_of(i).args[c].kind for i in v.items}
                cols.append(REAL if "real" in kinds else esh.args[c])
            # numpy unifies the dtype of the whole array
            if any(c.kind == "real" for c in cols):
                cols = [REAL if c.kind == "int" else c for c in cols]
            esh = Sh("tup", cols)
        return core.coerce_to_shape(v, Sh("seq", [esh]), st)
    raise Unsupported("np.array of %r" % (v,))


def argext(ev, args, st, node, which):
    v = args[0]
    if not isinstance(v, Seq) or v.esh.kind not in ("int", "real"):
        raise Unsupported("arg%s of %r" % (which, v))
    ev.need("arg%s of a non-empty array" % which, st, v.n > 0, node)
    r = z3.Int(fresh_name("arg" + which))
    # quantify over the *absolute* position p in the underlying array (pattern arr[p] matches every read)
    p = z3.Int(fresh_name("p"))
    arr = v.arrs[0]
    lo = v.off
    hi = z3.simplify(v.off + v.n)
    vr = z3.Select(arr, z3.simplify(v.off + r))
    vp = z3.Select(arr, p)
    st.pc.append(z3.And(r >= 0, r < v.n))
    def fa(body):
        if has_ite(vp):
            return z3.ForAll([p], body)      # the array term contains an if-then-else: z3 chooses the trigger
        return z3.ForAll([p], body, patterns=[vp])
    if which == "max":
        st.pc.append(fa(z3.Implies(z3.And(p >= lo, p < hi), vp <= vr)))
        st.pc.append(fa(z3.Implies(z3.And(p >= lo, p < lo + r), vp < vr)))
    else:
        st.pc.append(fa(z3.Implies(z3.And(p >= lo, p < hi), vp >= vr)))
        st.pc.append(fa(z3.Implies(z3.And(p >= lo, p < lo + r), vp > vr)))
    return Num(r)


@lib("numpy.argmax")
def lib_argmax(ev, args, kw, st, node):
    return argext(ev, args, st, node, "max")


@lib("numpy.argmin")
def lib_argmin(ev, args, kw, st, node):
    return argext(ev, args, st, node, "min")


def ext(ev, args, kw, st, node, which):
    v = args[0]
    if not isinstance(v, Seq):
        raise Unsupported("%s of %r" % (which, v))
    if v.esh.kind == "tup":
        ax = kw.get("axis")
        if ax is None or not z3.is_int_value(as_num(ax).t) or as_num(ax).t.as_long() != 0:
            raise Unsupported("max/min of a 2-d array without axis=0")
        return Tup([ext(ev, [v.column(c)], {}, st, node, which) for c in range(len(v.esh.args))])
    ev.need("%s of a non-empty array" % which, st, v.n > 0, node)
    r = z3.Const(fresh_name(which), leaf_sort(v.esh))
    j = z3.Int(fresh_name("j"))
    w = z3.Int(fresh_name("w"))
    vj = as_num(v.at(j)).t
    st.pc.append(z3.And(w >= 0, w < v.n, as_num(v.at(w)).t == r))
    st.pc.append(z3.ForAll([j], z3.Implies(z3.And(j >= 0, j < v.n), vj <= r if which == "max" else vj >= r)))
    return Num(r)


@lib("numpy.max", "numpy.amax")
def lib_max(ev, args, kw, st, node):
    return ext(ev, args, kw, st, node, "max")


@lib("numpy.min", "numpy.amin")
def lib_min(ev, args, kw, st, node):
    return ext(ev, args, kw, st, node, "min")


# ---- sums: Sum(arr, lo, hi) is a recursive spec function; only its unfolding axioms are known
def sum_term(arr, lo, hi):
    name = "Sum_" + ("I" if arr.sort().range() == z3.IntSort() else "R")
    return uf(name, arr.sort().range(), arr, lo, hi)


def sum_facts(arr, lo, hi):
    """defining facts of Sum at this application (unfold at both ends, empty range)."""
    zero = z3.IntVal(0) if arr.sort().range() == z3.IntSort() else z3.RealVal(0)
    s = sum_term(arr, lo, hi)
    return [z3.Implies(hi <= lo, s == zero),
            z3.Implies(hi > lo, s == sum_term(arr, lo, hi - 1) + z3.Select(arr, hi - 1)),
            z3.Implies(hi > lo, s == sum_term(arr, lo + 1, hi) + z3.Select(arr, lo))]


@lib("numpy.sum", "builtins.sum")
def lib_sum(ev, args, kw, st, node):
    v = args[0]
    if isinstance(v, Tup) and v.items and all(isinstance(x, Num) for x in v.items) and not kw:
        # a fixed-width row (e.g. one (x, y) point): the sum of its entries
        allint = all(x.is_int for x in v.items)
        t = v.items[0].t if allint else v.items[0].real()
        for x in v.items[1:]:
            t = t + (x.t if allint else x.real())
        return Num(t)
    if not isinstance(v, Seq) or v.esh.kind not in ("int", "real"):
        raise Unsupported("sum of %r" % (v,))
    lo, hi = v.off, z3.simplify(v.off + v.n)
    st.pc.extend(sum_facts(v.arrs[0], lo, hi))
    return Num(sum_term(v.arrs[0], lo, hi))


@lib("numpy.mean", "numpy.average")
def lib_mean(ev, args, kw, st, node):
    v = args[0]
    s = lib_sum(ev, args, kw, st, node)
    ev.need("mean of a non-empty array", st, v.n > 0, node)
    return Num(core.real_div(s.real(), z3.ToReal(v.n)))


def has_ite(t):
    seen = set()
    stack = [t]
    while stack:
        u = stack.pop()
        if u.get_id() in seen:
            continue
        seen.add(u.get_id())
        if z3.is_app(u):
            if u.decl().kind() == z3.Z3_OP_ITE:
                return True
            stack.extend(u.children())
    return False


def sqrt_seq(ev, n, xfn, st):
    """elementwise square root: sequence r with r[k] = sqrt(x(k)); the defining property is asserted for every k"""
    out = Seq.from_fn(n, REAL, lambda k: Num(uf_real("sqrt", xfn(k))))
    k2 = z3.Int(fresh_name("k"))
    r = as_num(out.at(k2)).t
    x = xfn(k2)
    body = z3.Implies(z3.And(k2 >= 0, k2 < n, x >= 0), z3.And(r >= 0, r * r == x))
    if has_ite(r):
        st.pc.append(z3.ForAll([k2], body))        # the argument contains an if-then-else: let z3 choose the trigger
    else:
        st.pc.append(z3.ForAll([k2], body, patterns=[r]))
    return out


def sqrt_term(ev, x, st):
    r = uf_real("sqrt", x)
    st.pc.append(z3.Implies(x >= 0, z3.And(r >= 0, r * r == x)))
    return r


@lib("math.sqrt", "numpy.sqrt")
def lib_sqrt(ev, args, kw, st, node):
    v = args[0]
    if isinstance(v, Seq):
        return sqrt_seq(ev, v.n, lambda k: as_num(v.at(k)).real(), st)
    x = as_num(v).real()
    if node is not None and isinstance(node.func, ast.Attribute) and isinstance(node.func.value, ast.Name) \
            and node.func.value.id == "math":
        ev.need("math.sqrt of a non-negative number", st, x >= 0, node)
    return Num(sqrt_term(ev, x, st))


@lib("numpy.square")
def lib_square(ev, args, kw, st, node):
    v = args[0]
    if isinstance(v, Tup) and all(isinstance(x, Num) for x in v.items):
        return Tup([Num(x.t * x.t) for x in v.items], islist=v.islist, isrow=v.isrow)
    if isinstance(v, Seq):
        return Seq.from_fn(v.n, v.esh, lambda k: map_leaves(v.at(k), lambda x: Num(x.t * x.t)))
    x = as_num(v)
    return Num(x.t * x.t)


def _row_items(v):
    if isinstance(v, Tup):
        return [as_num(i) for i in v.items]
    return None


@lib("numpy.linalg.norm")
def lib_norm(ev, args, kw, st, node):
    """Euclidean norm of a row (tuple of coordinates); with axis=1 the norm of every row of an n x k array"""
    v = args[0]
    ax = kw.get("axis")
    if isinstance(v, Tup):
        sq = None
        for it in _row_items(v):
            t = it.real() * it.real()
            sq = t if sq is None else sq + t
        return Num(sqrt_term(ev, sq, st))
    if isinstance(v, Seq) and v.esh.kind == "tup" and ax is not None and z3.is_int_value(as_num(ax).t) and as_num(ax).t.as_long() == 1:
        def xfn(k):
            sq = None
            for it in _row_items(v.at(k)):
                t = it.real() * it.real()
                sq = t if sq is None else sq + t
            return sq
        return sqrt_seq(ev, v.n, xfn, st)
    if isinstance(v, Seq) and v.esh.kind in ("int", "real") and ax is None:
        sqs = Seq.from_fn(v.n, REAL, lambda k: Num(as_num(v.at(k)).real() * as_num(v.at(k)).real()))
        s_ = lib_sum(ev, [sqs], {}, st, node)
        return Num(sqrt_term(ev, s_.t, st))
    raise Unsupported("np.linalg.norm of %r" % (v,))


@lib("numpy.dot")
def lib_dot(ev, args, kw, st, node):
    a, b = args

    def dot_rows(x, y):
        xs, ys = _row_items(x), _row_items(y)
        if xs is None or ys is None or len(xs) != len(ys):
            raise Unsupported("np.dot operands")
        t = None
        for p, q in zip(xs, ys):
            m = p.real() * q.real()
            t = m if t is None else t + m
        return Num(t)
    if isinstance(a, Tup) and isinstance(b, Tup):
        return dot_rows(a, b)
    if isinstance(a, Seq) and a.esh.kind == "tup" and isinstance(b, Tup):
        return Seq.from_fn(a.n, REAL, lambda k: dot_rows(a.at(k), b))
    raise Unsupported("np.dot of %r, %r" % (a, b))


@lib("numpy.divide")
def lib_divide(ev, args, kw, st, node):
    return ev.binop(ast.Div(), args[0], args[1], st, node)


@lib("numpy.hypot")
def lib_hypot(ev, args, kw, st, node):
    a, b = args
    if isinstance(a, Seq) and isinstance(b, Seq):
        ev.need("broadcast: equal lengths", st, a.n == b.n, node)
        def xfn(k):
            x, y = as_num(a.at(k)).real(), as_num(b.at(k)).real()
            return x * x + y * y
        return sqrt_seq(ev, a.n, xfn, st)
    x, y = as_num(a).real(), as_num(b).real()
    return Num(sqrt_term(ev, x * x + y * y, st))


@lib("numpy.arange")
def lib_arange(ev, args, kw, st, node):
    if len(args) != 1:
        raise Unsupported("np.arange with start/step")
    n = as_num(args[0])
    if not n.is_int:
        raise Unsupported("np.arange of a non-integer")
    ln = z3.If(n.t >= 0, n.t, z3.IntVal(0))
    return Seq.from_fn(z3.simplify(ln), INT, lambda k: Num(k))


@lib("numpy.concatenate")
def lib_concatenate(ev, args, kw, st, node):
    """np.concatenate((a, b, ...)) of one-dimensional integer/real parts (arrays, lists, tuples).  An empty *list* part makes NumPy
    return a float array with the same values; the model keeps the element values (callers follow with astype(int))."""
    parts = args[0]
    if not isinstance(parts, Tup) or kw:
        raise Unsupported("np.concatenate of %r" % (parts,))
    items = []
    for p_ in parts.items:
        if isinstance(p_, Seq) and p_.esh.kind in ("int", "real"):
            items.append((p_.n, p_.esh.kind == "int", lambda k, p_=p_: as_num(p_.at(k))))
        elif isinstance(p_, Tup) and all(isinstance(x, Num) for x in p_.items):
            def at(k, xs=p_.items):
                isint = all(x.is_int for x in xs)
                t = None
                for i in range(len(xs) - 1, -1, -1):
                    v = xs[i].t if isint else xs[i].real()
                    t = v if t is None else z3.If(k == i, v, t)
                return Num(t if t is not None else z3.IntVal(0))
            items.append((z3.IntVal(len(p_.items)), all(x.is_int for x in p_.items), at))
        else:
            raise Unsupported("np.concatenate part %r" % (p_,))
    allint = all(i for _, i, _ in items)
    total = z3.IntVal(0)
    for n_, _, _ in items:
        total = total + n_

    def elem(k):
        off = z3.IntVal(0)
        t = None
        branches = []
        for n_, isint, f in items:
            v = f(k - off)
            branches.append((k < off + n_, v.t if (allint or not v.is_int) else v.real()))
            off = off + n_
        t = branches[-1][1]
        for c, v in reversed(branches[:-1]):
            t = z3.If(c, v, t)
        return Num(t)
    if not items:
        raise Unsupported("np.concatenate of nothing")
    return Seq.from_fn(z3.simplify(total), INT if allint else REAL, elem)


@lib("numpy.unique")
def lib_unique(ev, args, kw, st, node):
    """np.unique(a): the strictly increasing array of the distinct values of a; ghost maps: U[j] = an index of a holding result[j],
    V[i] = the position of a[i] in the result.  [A]"""
    v = args[0]
    if not isinstance(v, Seq) or v.esh.kind not in ("int", "real") or kw or len(args) != 1:
        raise Unsupported("np.unique of %r" % (v,))
    facts = []
    R = fresh(Sh("seq", [v.esh]), "unique", facts, "array")
    U = z3.Array(fresh_name("uniqsrc"), z3.IntSort(), z3.IntSort())
    V = z3.Array(fresh_name("uniqpos"), z3.IntSort(), z3.IntSort())
    j, a_, b_, i = z3.Int(fresh_name("j")), z3.Int(fresh_name("a")), z3.Int(fresh_name("b")), z3.Int(fresh_name("i"))
    rt = lambda k: as_num(R.at(k)).t
    vt = lambda k: as_num(v.at(k)).t
    facts.append(R.n <= v.n)
    facts.append(z3.ForAll([a_, b_], z3.Implies(z3.And(0 <= a_, a_ < b_, b_ < R.n), rt(a_) < rt(b_))))
    facts.append(z3.ForAll([j], z3.Implies(z3.And(j >= 0, j < R.n), z3.And(U[j] >= 0, U[j] < v.n, rt(j) == vt(U[j])))))
    facts.append(z3.ForAll([i], z3.Implies(z3.And(i >= 0, i < v.n), z3.And(V[i] >= 0, V[i] < R.n, rt(V[i]) == vt(i)))))
    st.pc.extend(facts)
    st.env["_last_unique_src"] = Seq(R.n, z3.IntVal(0), [U], INT, "array")
    st.env["_last_unique_pos"] = Seq(v.n, z3.IntVal(0), [V], INT, "array")
    return R


@lib("numpy.empty_like")
def lib_empty_like(ev, args, kw, st, node):
    """uninitialised array of the same shape and dtype: arbitrary contents"""
    v = args[0]
    if not isinstance(v, Seq):
        raise Unsupported("np.empty_like of %r" % (v,))
    facts = []
    out = fresh(Sh("seq", [v.esh]), "empty", facts, "array")
    st.pc.extend(facts)
    st.pc.append(out.n == v.n)
    return out


@lib("numpy.zeros")
def lib_zeros(ev, args, kw, st, node):
    n = as_num(args[0])
    if not n.is_int:
        raise Unsupported("np.zeros shape")
    ev.need("np.zeros of a non-negative length", st, n.t >= 0, node)
    return Seq(n.t, z3.IntVal(0), [z3.K(z3.IntSort(), z3.RealVal(0))], REAL, "array")


@lib("numpy.maximum.reduce")
def lib_maximum_reduce(ev, args, kw, st, node):
    v = args[0]
    if not isinstance(v, Tup) or not all(isinstance(i, Seq) for i in v.items):
        raise Unsupported("np.maximum.reduce operand")
    seqs = v.items
    for s_ in seqs[1:]:
        ev.need("broadcast: equal lengths", st, s_.n == seqs[0].n, node)
    def elem(k):
        r = as_num(seqs[0].at(k)).real()
        for s_ in seqs[1:]:
            y = as_num(s_.at(k)).real()
            r = z3.If(r >= y, r, y)
        return Num(r)
    return Seq.from_fn(seqs[0].n, REAL, elem)


@lib("numpy.log", "math.log")
def lib_log(ev, args, kw, st, node):
    """natural logarithm: an uninterpreted function (only congruence is known)  [A]"""
    v = args[0]
    if isinstance(v, Seq):
        return Seq.from_fn(v.n, REAL, lambda k: Num(uf_real("log", as_num(v.at(k)).real())))
    return Num(uf_real("log", as_num(v).real()))


@lib("numpy.maximum")
def lib_maximum(ev, args, kw, st, node):
    a, b = args
    if isinstance(a, Seq) and isinstance(b, Seq):
        ev.need("broadcast: equal lengths", st, a.n == b.n, node)
        def elem(k):
            x, y = as_num(a.at(k)).real(), as_num(b.at(k)).real()
            return Num(z3.If(x >= y, x, y))
        return Seq.from_fn(a.n, REAL, elem)
    x, y, _ = num_pair(as_num(a), as_num(b))
    return Num(z3.If(x >= y, x, y))


def _uts_array(name):
    def f(ev, args, kw, st, node):
        """uts.gradient.*: an array of the same length, an uninterpreted function of the inputs (A-PURE-DEP)  [A]"""
        x, y = args[0], args[1]
        ev.need("%s needs at least 3 points" % name, st, x.n >= 3, node)
        ev.need("broadcast: equal lengths", st, x.n == y.n, node)
        arr = uf(name, z3.ArraySort(z3.IntSort(), z3.RealSort()), *(flat_terms(x) + flat_terms(y)))
        return Seq(x.n, z3.IntVal(0), [arr], REAL, "array")
    return f


@lib("uts.thresholding.isodata")
def lib_isodata(ev, args, kw, st, node):
    """uts.thresholding.isodata: a real threshold, an uninterpreted function of the array contents (A-PURE-DEP)  [A]"""
    v = args[0]
    return Num(uf("uts_isodata", z3.RealSort(), *flat_terms(v)))


LIB["uts.gradient.cfd"] = _uts_array("uts_cfd")
LIB["uts.gradient.csd"] = _uts_array("uts_csd")


@lib("numpy.all")
def lib_all(ev, args, kw, st, node):
    v = args[0]
    if isinstance(v, BoolV):
        return v
    if isinstance(v, Seq) and v.esh.kind == "bool":
        k = z3.Int(fresh_name("k"))
        return BoolV(z3.ForAll([k], z3.Implies(z3.And(k >= 0, k < v.n), v.at(k).t)))
    raise Unsupported("np.all of %r" % (v,))


@lib("math.ceil")
def lib_ceil(ev, args, kw, st, node):
    v = as_num(args[0])
    if v.is_int:
        return v
    return Num(-z3.ToInt(-v.t))


@lib("math.floor")
def lib_floor(ev, args, kw, st, node):
    v = as_num(args[0])
    if v.is_int:
        return v
    return Num(z3.ToInt(v.t))


def lib_astype(ev, recv, args, st, node):
    a = args[0]
    if isinstance(a, FnV) and a.qual == "builtins.int":
        if recv.esh.kind == "int":
            return recv
        return Seq.from_fn(recv.n, INT, lambda k: Num(core.py_int_of_real(as_num(recv.at(k)).t)))
    if isinstance(a, FnV) and a.qual == "builtins.float":
        return Seq.from_fn(recv.n, REAL, lambda k: Num(as_num(recv.at(k)).real()))
    raise Unsupported("astype(%r)" % (a,))


@lib("numpy.argsort")
def lib_argsort(ev, args, kw, st, node):
    """argsort: a permutation p (with inverse) such that a[p] is non-decreasing.  [A]"""
    v = args[0]
    if not isinstance(v, Seq) or v.esh.kind not in ("int", "real"):
        raise Unsupported("argsort of %r" % (v,))
    n = v.n
    P = z3.Array(fresh_name("argsort"), z3.IntSort(), z3.IntSort())
    Q = z3.Array(fresh_name("argsortinv"), z3.IntSort(), z3.IntSort())
    k = z3.Int(fresh_name("k"))
    rng = z3.And(k >= 0, k < n)
    st.pc.append(z3.ForAll([k], z3.Implies(rng, z3.And(P[k] >= 0, P[k] < n, Q[P[k]] == k))))
    st.pc.append(z3.ForAll([k], z3.Implies(rng, z3.And(Q[k] >= 0, Q[k] < n, P[Q[k]] == k))))
    a, b = z3.Int(fresh_name("a")), z3.Int(fresh_name("b"))
    st.pc.append(z3.ForAll([a, b], z3.Implies(z3.And(a >= 0, a < b, b < n),
                                               as_num(v.at(P[a])).t <= as_num(v.at(P[b])).t)))
    res = Seq(n, z3.IntVal(0), [P], INT, "array")
    if not ev.spec:
        st.env["_last_argsort"] = res          # ghost name for the (usually anonymous) permutation, usable in proof steps
    return res


# =============================================================================== masks, dicts, comprehensions
_mask_memo = {}


def mask_select(ev, base, mask, st, node):
    """a[mask]: the order-preserving subsequence of the positions where mask is true.  Modelled by a fresh sequence R with ghost
    index maps J (position in a of R[j]) and PM (position in R of a kept element):  R[j] == a[J[j]], mask[J[j]], J strictly
    increasing, and every true position p occurs: J[PM[p]] == p.  The same (a, mask) terms give the same R (determinism)."""
    if not ev.spec:
        ev.need("boolean mask: equal lengths", st, mask.n == base.n, node)
        ev.ctx.trusted.add("lib:numpy boolean-mask selection")
    key = (id(ev.ctx), tuple(t.sexpr() for t in base.key()), tuple(t.sexpr() for t in mask.key()))
    if key in _mask_memo:
        R, Jseq, facts = _mask_memo[key]
    else:
        facts = []
        R = fresh(Sh("seq", [base.esh]), "masked", facts, "array")
        J = z3.Array(fresh_name("maskidx"), z3.IntSort(), z3.IntSort())
        PM = z3.Array(fresh_name("maskpos"), z3.IntSort(), z3.IntSort())
        j, a_, b_, p_ = z3.Int(fresh_name("j")), z3.Int(fresh_name("a")), z3.Int(fresh_name("b")), z3.Int(fresh_name("p"))
        facts.append(R.n <= base.n)
        eqs = [x == y for x, y in zip(flatten_val(base.esh, R.at(j)), flatten_val(base.esh, base.at(J[j])))]
        facts.append(z3.ForAll([j], z3.Implies(z3.And(j >= 0, j < R.n),
                                               z3.And(J[j] >= 0, J[j] < base.n, mask.at(J[j]).t, PM[J[j]] == j, *eqs))))
        facts.append(z3.ForAll([a_, b_], z3.Implies(z3.And(0 <= a_, a_ < b_, b_ < R.n), J[a_] < J[b_])))
        facts.append(z3.ForAll([p_], z3.Implies(z3.And(p_ >= 0, p_ < base.n, mask.at(p_).t), z3.And(PM[p_] >= 0, PM[p_] < R.n, J[PM[p_]] == p_))))
        Jseq = Seq(R.n, z3.IntVal(0), [J], INT, "array")
        Jseq.pos = Seq(base.n, z3.IntVal(0), [PM], INT, "array")
        _mask_memo[key] = (R, Jseq, facts)
    for f in facts:
        if not any(f.eq(h) for h in st.pc[-40:]):
            st.pc.append(f)
    if not ev.spec:
        st.env["_last_mask_index"] = Jseq
        st.env["_last_mask_pos"] = Jseq.pos
    return R


def mask_store(ev, base, mask, v, st, node):
    if mask.esh.kind == "int" and isinstance(v, Seq) and base.esh.kind in ("int", "real"):
        # fancy store a[idx] = v with pairwise distinct indices: a'[idx[k]] = v[k], all other cells unchanged
        n = mask.n
        a_, b_, k = z3.Int(fresh_name("a")), z3.Int(fresh_name("b")), z3.Int(fresh_name("k"))
        ia = lambda t: as_num(mask.at(t)).t
        ev.need("fancy store: index and value lengths agree", st, v.n == n, node)
        ev.need("fancy store: indices in bounds", st, z3.ForAll([k], z3.Implies(z3.And(k >= 0, k < n), z3.And(ia(k) >= 0, ia(k) < base.n))), node)
        ev.need("fancy store: indices pairwise distinct", st, z3.ForAll([a_, b_], z3.Implies(z3.And(0 <= a_, a_ < b_, b_ < n), ia(a_) != ia(b_))), node)
        facts = []
        out = fresh(Sh("seq", [base.esh]), "fstore", facts, base.kind)
        st.pc.extend(facts)
        st.pc.append(out.n == base.n)
        from .values import leaf_term
        vk = leaf_term(base.esh, v.at(k))
        st.pc.append(z3.ForAll([k], z3.Implies(z3.And(k >= 0, k < n), as_num(out.at(ia(k))).t == vk)))
        j = z3.Int(fresh_name("j"))
        st.pc.append(z3.ForAll([j], z3.Implies(z3.And(j >= 0, j < base.n, z3.ForAll([k], z3.Implies(z3.And(k >= 0, k < n), ia(k) != j))),
                                               as_num(out.at(j)).t == as_num(base.at(j)).t)))
        return out
    raise Unsupported("boolean-mask store")


def _dict_key(k):
    if isinstance(k, core.StrV):
        return ("str", k.s)
    if isinstance(k, Tup) and len(k.items) == 2:
        a, b = as_num(k.items[0]), as_num(k.items[1])
        if a.is_int and b.is_int:
            return ("pair", a.t, b.t)
    raise Unsupported("dict key %r" % (k,))


def dict_has(d, k):
    key = _dict_key(k)
    if key[0] == "str":
        return d.strkey(key[1])[0]
    return d.has(key[1], key[2])


def dict_get(ev, d, k, st, node):
    key = _dict_key(k)
    ev.need("dict key present", st, dict_has(d, k), node)
    if key[0] == "str":
        return Num(d.strkey(key[1])[1])
    return Num(d.get(key[1], key[2]))


def dict_set(ev, d, k, v, st, node):
    key = _dict_key(k)
    val = as_num(v).real()
    if key[0] == "str":
        extra = dict(d.extra)
        extra[key[1]] = (z3.BoolVal(True), val)
        return DictV(d.dom, d.val, extra, d.root, d.base)
    return d.set(key[1], key[2], val)


def dict_del(ev, d, k, st, node):
    raise Unsupported("dict del")


def listcomp(ev, n, st):
    raise Unsupported("comprehension")


# =============================================================================== spec builtins
SPEC = {}


def spec(name):
    def deco(f):
        SPEC[name] = f
        return f
    return deco


def _lam(node):
    if not isinstance(node, ast.Lambda):
        raise Unsupported("quantifier body must be a lambda")
    return [a.arg for a in node.args.args], node.body


def mk_forall(vs, rng, body):
    """forall vs. rng => body, with directly nested universal quantifiers merged into one prefix
    (one multi-variable quantifier is much friendlier to E-matching than nested ones)."""
    body = z3.simplify(body) if False else body
    if z3.is_quantifier(body) and body.is_forall() and body.num_patterns() == 0:
        inner = [z3.Const(fresh_name(body.var_name(i)), body.var_sort(i)) for i in range(body.num_vars())]
        b = z3.substitute_vars(body.body(), *reversed(inner))
        if z3.is_implies(b):
            return z3.ForAll(list(vs) + inner, z3.Implies(z3.And(rng, b.arg(0)), b.arg(1)))
        return z3.ForAll(list(vs) + inner, z3.Implies(rng, b))
    return z3.ForAll(list(vs), z3.Implies(rng, body))


def scoped(ev, body, s2, vs):
    from . import values
    values.SCOPE.extend(vs)
    try:
        return b2t(ev.ev(body, s2))
    finally:
        del values.SCOPE[len(values.SCOPE) - len(vs):]


@spec("forall")
def sp_forall(ev, node, st):
    lo = as_num(ev.ev(node.args[0], st)).t
    hi = as_num(ev.ev(node.args[1], st)).t
    names, body = _lam(node.args[2])
    vs = [z3.Int(fresh_name(nm)) for nm in names]
    s2 = State(dict(st.env), st.pc)
    for nm, v in zip(names, vs):
        s2.env[nm] = Num(v)
    rng = z3.And(*[z3.And(lo <= v, v < hi) for v in vs])
    return BoolV(mk_forall(vs, rng, scoped(ev, body, s2, vs)))


@spec("forall2")
def sp_forall2(ev, node, st):
    """forall2(lo, hi, lambda a, b: body): all pairs lo <= a < b < hi"""
    lo = as_num(ev.ev(node.args[0], st)).t
    hi = as_num(ev.ev(node.args[1], st)).t
    names, body = _lam(node.args[2])
    a, b = [z3.Int(fresh_name(nm)) for nm in names]
    s2 = State(dict(st.env), st.pc)
    s2.env[names[0]] = Num(a)
    s2.env[names[1]] = Num(b)
    return BoolV(z3.ForAll([a, b], z3.Implies(z3.And(lo <= a, a < b, b < hi), scoped(ev, body, s2, [a, b]))))


@spec("exists")
def sp_exists(ev, node, st):
    lo = as_num(ev.ev(node.args[0], st)).t
    hi = as_num(ev.ev(node.args[1], st)).t
    names, body = _lam(node.args[2])
    vs = [z3.Int(fresh_name(nm)) for nm in names]
    s2 = State(dict(st.env), st.pc)
    for nm, v in zip(names, vs):
        s2.env[nm] = Num(v)
    rng = z3.And(*[z3.And(lo <= v, v < hi) for v in vs])
    return BoolV(z3.Exists(vs, z3.And(rng, scoped(ev, body, s2, vs))))


@spec("implies")
def sp_implies(ev, node, st):
    a = b2t(ev.ev(node.args[0], st))
    mark = len(st.pc)
    b = b2t(ev.ev(node.args[1], st))
    return BoolV(z3.Implies(a, b))


@spec("iff")
def sp_iff(ev, node, st):
    return BoolV(b2t(ev.ev(node.args[0], st)) == b2t(ev.ev(node.args[1], st)))


@spec("ite")
def sp_ite(ev, node, st):
    c = b2t(ev.ev(node.args[0], st))
    arms = []
    for k, cond in ((1, c), (2, z3.Not(c))):
        try:
            arms.append(ev.ev(node.args[k], st))
        except Unsupported:
            # an arm naming a variable that does not exist on this path is fine when the path condition excludes the arm
            if ev.ctx.feasible(st, cond):
                raise
            arms.append(None)
    if arms[0] is None:
        return arms[1]
    if arms[1] is None:
        return arms[0]
    return ite_val(c, arms[0], arms[1])


@spec("old")
def sp_old(ev, node, st):
    s2 = State(dict(st.env), st.pc)
    s2.env.update(ev.ctx.old_env)
    return ev.ev(node.args[0], s2)


@spec("seq_eq")
def sp_seq_eq(ev, node, st):
    return BoolV(core.seq_eq(ev.ev(node.args[0], st), ev.ev(node.args[1], st)))


@spec("is_none")
def sp_is_none(ev, node, st):
    v = ev.ev(node.args[0], st)
    if isinstance(v, NoneV):
        return BoolV(True)
    if isinstance(v, Opt):
        return BoolV(v.isnone)
    return BoolV(False)


@spec("opt_val")
def sp_opt_val(ev, node, st):
    v = ev.ev(node.args[0], st)
    return v.val if isinstance(v, Opt) else v


@spec("sqrt")
def sp_sqrt(ev, node, st):
    x = as_num(ev.ev(node.args[0], st)).real()
    r = uf_real("sqrt", x)
    from . import values
    if not any(values.occurs(v, x) for v in values.SCOPE):
        st.pc.append(z3.Implies(x >= 0, z3.And(r >= 0, r * r == x)))     # defining property of the real square root
    return Num(r)


@spec("log")
def sp_log(ev, node, st):
    return Num(uf_real("log", as_num(ev.ev(node.args[0], st)).real()))


@spec("real")
def sp_real(ev, node, st):
    return Num(as_num(ev.ev(node.args[0], st)).real())


@spec("floor")
def sp_floor(ev, node, st):
    v = as_num(ev.ev(node.args[0], st))
    return v if v.is_int else Num(z3.ToInt(v.t))


@spec("trunc")
def sp_trunc(ev, node, st):
    v = as_num(ev.ev(node.args[0], st))
    return v if v.is_int else Num(core.py_int_of_real(v.t))


@spec("absr")
def sp_absr(ev, node, st):
    v = as_num(ev.ev(node.args[0], st))
    return Num(z3.If(v.t >= 0, v.t, -v.t))


@spec("sq")
def sp_sq(ev, node, st):
    v = as_num(ev.ev(node.args[0], st))
    return Num(v.t * v.t)


@spec("min2")
def sp_min2(ev, node, st):
    x, y, _ = num_pair(as_num(ev.ev(node.args[0], st)), as_num(ev.ev(node.args[1], st)))
    return Num(z3.If(x <= y, x, y))


@spec("max2")
def sp_max2(ev, node, st):
    x, y, _ = num_pair(as_num(ev.ev(node.args[0], st)), as_num(ev.ev(node.args[1], st)))
    return Num(z3.If(x >= y, x, y))


@spec("Sum")
def sp_sum(ev, node, st):
    """Sum(lo, hi, lambda k: term)  or  Sum(seq)"""
    if len(node.args) == 1:
        v = ev.ev(node.args[0], st)
        return Num(sum_term(v.arrs[0], v.off, z3.simplify(v.off + v.n)))
    lo = as_num(ev.ev(node.args[0], st)).t
    hi = as_num(ev.ev(node.args[1], st)).t
    names, body = _lam(node.args[2])
    s2 = State(dict(st.env), st.pc)

    def elem(k):
        s2.env[names[0]] = Num(k)
        return as_num(ev.ev(body, s2))
    probe = elem(z3.Int(fresh_name("probe")))
    seq = Seq.from_fn(hi, INT if probe.is_int else REAL, elem)
    return Num(sum_term(seq.arrs[0], lo, hi))


@spec("SumRange")
def sp_sumrange(ev, node, st):
    """SumRange(seq, lo, hi) = seq[lo] + ... + seq[hi-1]"""
    v = ev.ev(node.args[0], st)
    lo = as_num(ev.ev(node.args[1], st)).t
    hi = as_num(ev.ev(node.args[2], st)).t
    return Num(sum_term(v.arrs[0], z3.simplify(v.off + lo), z3.simplify(v.off + hi)))


@spec("store")
def sp_store(ev, node, st):
    """store(seq, i, v): the sequence seq with element i replaced by v (ghost updates)"""
    seq = ev.ev(node.args[0], st)
    i = as_num(ev.ev(node.args[1], st)).t
    return seq.store(i, ev.ev(node.args[2], st))


@spec("pigeonhole")
def sp_pigeonhole(ev, node, st):
    """pigeonhole(seq, m): assumed lemma [A] - a duplicate-free integer sequence with all entries in [0, m) has at most m
    entries (Mathlib: Fintype.card_le_of_injective).  Evaluates to that implication, which is *assumed* to be valid: the
    obligation 'pigeonhole(...)' is discharged by construction and the formula is added to the hypotheses."""
    seq = ev.ev(node.args[0], st)
    m = as_num(ev.ev(node.args[1], st)).t
    a, b, k = z3.Int(fresh_name("a")), z3.Int(fresh_name("b")), z3.Int(fresh_name("k"))
    distinct = z3.ForAll([a, b], z3.Implies(z3.And(0 <= a, a < b, b < seq.n), as_num(seq.at(a)).t != as_num(seq.at(b)).t))
    inrange = z3.ForAll([k], z3.Implies(z3.And(0 <= k, k < seq.n), z3.And(as_num(seq.at(k)).t >= 0, as_num(seq.at(k)).t < m)))
    ev.ctx.trusted.add("lemma (assumed): pigeonhole - duplicate-free entries in [0,m) => length <= m (Mathlib Fintype.card_le_of_injective)")
    fact = z3.Implies(z3.And(distinct, inrange), seq.n <= m)
    st.pc.append(fact)
    return BoolV(fact)


@spec("uf")
def sp_uf(ev, node, st):
    """uf('Name', 'Real'|'Int'|'Bool', args...) : uninterpreted function of the flattened arguments"""
    name = node.args[0].value
    rs = parse_shape(node.args[1].value)
    terms = []
    for a in node.args[2:]:
        terms.extend(flat_terms(ev.ev(a, st)))
    from .values import leaf_val
    return leaf_val(rs, uf(name, leaf_sort(rs), *terms))


@spec("ufa")
def sp_ufa(ev, node, st):
    """ufa('Name', 'Real', n, args...) : uninterpreted *array* (sequence of length n) of the arguments"""
    name = node.args[0].value
    rs = parse_shape(node.args[1].value)
    n = as_num(ev.ev(node.args[2], st)).t
    terms = []
    for a in node.args[3:]:
        terms.extend(flat_terms(ev.ev(a, st)))
    arr = uf(name, z3.ArraySort(z3.IntSort(), leaf_sort(rs)), *terms)
    return Seq(n, z3.IntVal(0), [arr], rs, "array")
