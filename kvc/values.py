"""Value model of the kvc symbolic executor (see DESIGN.md section 2.2).

Every Python/NumPy value that the verified functions manipulate is represented by
one of the classes below, built over z3 terms.  Sequences (lists, 1-D arrays,
n x k point arrays) are (length, offset, one z3 Array per scalar leaf of the
element shape); basic slices share the arrays of their base and only change
offset/length, so "the same slice of the same array" is the same tuple of terms
(needed for uninterpreted numerics, mode U).
"""
import z3

_ctr = [0]


def fresh_name(base):
    _ctr[0] += 1
    return "%s!%d" % (base, _ctr[0])


class Unsupported(Exception):
    """Construct outside the verified subset: the function becomes *undecided*."""


# ----------------------------------------------------------------------------- shapes
class Sh:
    __slots__ = ("kind", "args", "name")

    def __init__(self, kind, args=(), name=None):
        self.kind = kind
        self.args = tuple(args)
        self.name = name

    def __repr__(self):
        if self.kind == "enum":
            return "Enum[%s]" % self.name
        if self.kind == "opaque":
            return "Opaque[%s]" % self.name
        if self.args:
            return "%s[%s]" % (self.kind.capitalize(), ",".join(map(repr, self.args)))
        return self.kind.capitalize()

    def __eq__(self, o):
        return isinstance(o, Sh) and (self.kind, self.args, self.name) == (o.kind, o.args, o.name)

    def __hash__(self):
        return hash((self.kind, self.args, self.name))


INT = Sh("int")
REAL = Sh("real")
BOOL = Sh("bool")
NONE = Sh("none")
FN = Sh("fn")


def parse_shape(s):
    s = s.replace(" ", "")
    pos = [0]

    def parse():
        i = pos[0]
        j = i
        while j < len(s) and (s[j].isalnum() or s[j] in "._"):
            j += 1
        word = s[i:j]
        pos[0] = j
        args = []
        if j < len(s) and s[j] == "[":
            pos[0] = j + 1
            if word in ("Enum", "Opaque"):
                k = s.index("]", pos[0])
                nm = s[pos[0]:k]
                pos[0] = k + 1
                return Sh(word.lower(), (), nm)
            while True:
                args.append(parse())
                c = s[pos[0]]
                pos[0] += 1
                if c == "]":
                    break
                assert c == ",", s
        w = word.lower()
        if w in ("int", "real", "bool", "none", "fn"):
            return Sh(w)
        if w in ("tup", "seq", "opt", "dict"):
            return Sh(w, args)
        raise ValueError("bad shape %r" % s)

    r = parse()
    assert pos[0] == len(s), s
    return r


# ----------------------------------------------------------------------------- values
class Val:
    pass


class Num(Val):
    __slots__ = ("t",)

    def __init__(self, t):
        if isinstance(t, bool):
            raise TypeError
        if isinstance(t, int):
            t = z3.IntVal(t)
        elif isinstance(t, float):
            t = z3.RealVal(repr(t))
        self.t = t

    @property
    def is_int(self):
        return self.t.sort().kind() == z3.Z3_INT_SORT

    def real(self):
        return self.t if not self.is_int else z3.ToReal(self.t)

    def __repr__(self):
        return "Num(%s)" % self.t


class BoolV(Val):
    __slots__ = ("t",)

    def __init__(self, t):
        if isinstance(t, bool):
            t = z3.BoolVal(t)
        self.t = t

    def __repr__(self):
        return "Bool(%s)" % self.t


class NoneV(Val):
    def __repr__(self):
        return "None"


class EnumV(Val):
    __slots__ = ("cls", "t")

    def __init__(self, cls, t):
        self.cls = cls
        self.t = t


class Opaque(Val):
    """A value of an uninterpreted sort (only equality is known)."""
    __slots__ = ("name", "t")

    def __init__(self, name, t):
        self.name = name
        self.t = t


class Tup(Val):
    __slots__ = ("items", "islist", "isrow")

    def __init__(self, items, islist=False, isrow=False):
        self.items = list(items)
        self.islist = islist
        self.isrow = isrow      # a row of a 2-D array (NumPy semantics: arithmetic is elementwise)

    def __repr__(self):
        return "Tup(%s)" % (self.items,)


class Opt(Val):
    """None or a value."""
    __slots__ = ("isnone", "val")

    def __init__(self, isnone, val):
        self.isnone = isnone
        self.val = val


class FnV(Val):
    """A callable value: a package function (qualified name), a library function or a lambda."""
    __slots__ = ("qual", "node", "env")

    def __init__(self, qual=None, node=None, env=None):
        self.qual = qual
        self.node = node
        self.env = env

    def __repr__(self):
        return "Fn(%s)" % (self.qual or "<lambda>")


class ModV(Val):
    """A module object (resolved import)."""
    __slots__ = ("qual",)

    def __init__(self, qual):
        self.qual = qual


class ClsV(Val):
    __slots__ = ("qual",)

    def __init__(self, qual):
        self.qual = qual


_enum_sorts = {}


def enum_sort(qual, members):
    if qual not in _enum_sorts:
        srt, consts = z3.EnumSort(qual.replace(".", "_"), list(members))
        _enum_sorts[qual] = (srt, dict(zip(members, consts)))
    return _enum_sorts[qual]


_opaque_sorts = {}


def opaque_sort(name):
    if name not in _opaque_sorts:
        _opaque_sorts[name] = z3.DeclareSort(name)
    return _opaque_sorts[name]


def leaf_sort(sh, enums=None):
    if sh.kind == "int":
        return z3.IntSort()
    if sh.kind == "real":
        return z3.RealSort()
    if sh.kind == "bool":
        return z3.BoolSort()
    if sh.kind == "enum":
        return _enum_sorts[sh.name][0]
    if sh.kind == "opaque":
        return opaque_sort(sh.name)
    raise Unsupported("no leaf sort for shape %r" % (sh,))


def leaf_val(sh, t):
    if sh.kind in ("int", "real"):
        return Num(t)
    if sh.kind == "bool":
        return BoolV(t)
    if sh.kind == "enum":
        return EnumV(sh.name, t)
    if sh.kind == "opaque":
        return Opaque(sh.name, t)
    raise Unsupported("leaf_val %r" % (sh,))


def leaf_term(sh, v):
    """z3 term of value v coerced to the leaf shape sh."""
    if sh.kind == "real":
        if isinstance(v, Num):
            return v.real()
        if isinstance(v, BoolV):
            return z3.If(v.t, z3.RealVal(1), z3.RealVal(0))
    if sh.kind == "int":
        if isinstance(v, Num):
            if v.is_int:
                return v.t
            raise Unsupported("real value stored into an integer sequence")
        if isinstance(v, BoolV):
            return z3.If(v.t, z3.IntVal(1), z3.IntVal(0))
    if sh.kind == "bool" and isinstance(v, BoolV):
        return v.t
    if sh.kind == "enum" and isinstance(v, EnumV):
        return v.t
    if sh.kind == "opaque" and isinstance(v, Opaque):
        return v.t
    raise Unsupported("cannot store %r as %r" % (v, sh))


def flatten_shape(sh):
    """list of leaf shapes of an element shape (tuples are flattened in order)."""
    if sh.kind == "tup":
        out = []
        for a in sh.args:
            out.extend(flatten_shape(a))
        return out
    if sh.kind in ("seq", "opt", "dict", "fn", "none"):
        raise Unsupported("nested %s inside a sequence" % sh.kind)
    return [sh]


def flatten_val(sh, v):
    if sh.kind == "tup":
        if isinstance(v, Seq):
            # a fixed-arity row given as a sequence value is not convertible in general
            raise Unsupported("sequence used as fixed-arity row")
        if not isinstance(v, Tup) or len(v.items) != len(sh.args):
            raise Unsupported("row arity mismatch: %r vs %r" % (v, sh))
        out = []
        for a, it in zip(sh.args, v.items):
            out.extend(flatten_val(a, it))
        return out
    return [leaf_term(sh, v)]


def build_val(sh, terms, islist=False):
    """inverse of flatten_val: consume len(flatten_shape(sh)) terms from the list."""
    if sh.kind == "tup":
        items = []
        for a in sh.args:
            k = len(flatten_shape(a))
            items.append(build_val(a, terms[:k]))
            terms = terms[k:]
        return Tup(items, islist=True, isrow=True)
    return leaf_val(sh, terms[0])


TRANSPARENT = [False]   # contract option 'transparent': element reads of computed sequences return the defining term
_MEMO = {}
SCOPE = []   # specification variables (z3 constants) bound by the quantifiers currently being evaluated
DEFS = []    # (symbol name, definitional axiom) of the computed sequences created so far


def occurs(v, t):
    seen = set()
    stack = [t]
    vid = v.get_id()
    while stack:
        u = stack.pop()
        i = u.get_id()
        if i == vid:
            return True
        if i in seen:
            continue
        seen.add(i)
        if z3.is_app(u):
            stack.extend(u.children())
        elif z3.is_quantifier(u):
            stack.append(u.body())
    return False


class Seq(Val):
    """list / 1-D array / n x k array: length n, offset off, one z3 array per leaf."""
    __slots__ = ("n", "off", "arrs", "esh", "kind", "root", "fn")

    def __init__(self, n, off, arrs, esh, kind="array", root=None, fn=None):
        self.n = n
        self.off = off
        self.arrs = list(arrs)
        self.esh = esh
        self.kind = kind  # 'array' | 'list'
        self.root = root  # name of the parameter whose memory this value (or view) aliases, else None
        self.fn = fn      # computed sequences: element k as a function of k (transparent element access, see at())

    def idx(self, i):
        return z3.simplify(self.off + i) if z3.is_int_value(self.off) and z3.is_int_value(i) else self.off + i

    def at(self, i):
        if self.fn is not None and TRANSPARENT[0]:
            # computed sequence: hand out the defining term itself instead of a read of the definitional array, so that
            # no equality reasoning through definitions is needed (the arrays remain for Sum / uninterpreted functions)
            return self.fn(i)
        j = self.idx(i)
        return build_val(self.esh, [z3.Select(a, j) for a in self.arrs])

    def store(self, i, v):
        j = self.idx(i)
        ts = flatten_val(self.esh, v)
        return Seq(self.n, self.off, [z3.Store(a, j, t) for a, t in zip(self.arrs, ts)], self.esh, self.kind, self.root)

    def append(self, v):
        s = self.store(self.n, v)
        s.n = self.n + 1
        return s

    def slice(self, lo, hi):
        """lo, hi already clamped: 0 <= lo, hi <= n (terms)."""
        ln = z3.If(hi >= lo, hi - lo, z3.IntVal(0))
        # NumPy basic slices are views (alias the base); Python list slices are copies
        f = self.fn
        return Seq(z3.simplify(ln), z3.simplify(self.off + lo), self.arrs, self.esh, self.kind,
                   self.root if self.kind == "array" else None, (lambda k: f(lo + k)) if f is not None else None)

    def column(self, k):
        if self.esh.kind != "tup":
            raise Unsupported("column of a 1-D sequence")
        start = 0
        for a in self.esh.args[:k]:
            start += len(flatten_shape(a))
        sub = self.esh.args[k]
        cnt = len(flatten_shape(sub))
        f = self.fn
        return Seq(self.n, self.off, self.arrs[start:start + cnt], sub, "array", self.root,
                   (lambda i: f(i).items[k]) if f is not None else None)

    @staticmethod
    def from_fn(n, esh, fn, kind="array"):
        """sequence whose element k is fn(k) (a Val).  No z3 lambdas: every leaf array is a fresh
        symbol A (a function of the specification variables currently in scope, if they occur) with the
        definitional axiom  forall scope, k. A(scope)[k] == term  recorded in DEFS (conservative extension)."""
        k = z3.Int(fresh_name("k"))
        ts = flatten_val(esh, fn(k))
        arrs = []
        for t in ts:
            fvs = [v for v in SCOPE if occurs(v, t)]
            asort = z3.ArraySort(z3.IntSort(), t.sort())
            # the same defining term (up to renaming of k and of the scope variables) gets the same symbol,
            # so that a specification evaluated twice (hypothesis / goal) denotes the same sequence
            canon = [(k, z3.Int("k!canon"))] + [(v, z3.Const("v!canon%d" % i, v.sort())) for i, v in enumerate(fvs)]
            key = (z3.substitute(t, *canon).sexpr(), tuple(str(v.sort()) for v in fvs))
            if key in _MEMO:
                nm, f = _MEMO[key]
                arr = f(*fvs) if fvs else f
            else:
                nm = fresh_name("arr")
                if fvs:
                    f = z3.Function(nm, *([v.sort() for v in fvs] + [asort]))
                    arr = f(*fvs)
                else:
                    f = arr = z3.Const(nm, asort)
                _MEMO[key] = (nm, f)
                sel = z3.Select(arr, k)
                DEFS.append((nm, z3.ForAll(fvs + [k], sel == t, patterns=[sel])))
            arrs.append(arr)

        def conv(i):
            return build_val(esh, flatten_val(esh, fn(i)))     # coerced to the element shape (e.g. int -> real)
        return Seq(n, z3.IntVal(0), arrs, esh, kind, None, conv)

    def key(self):
        """terms identifying the contents (for uninterpreted functions of a slice)."""
        return list(self.arrs) + [self.off, self.n]

    def __repr__(self):
        return "Seq(n=%s, off=%s, %r)" % (self.n, self.off, self.esh)


class DictV(Val):
    """dict keyed by pairs of ints (the cost cache) plus a few string keys.  dom / val are nested z3 arrays
    Int -> (Int -> Bool) / Int -> (Int -> Real); string keys live in `extra`: name -> (present: Bool term, value: Real term)."""
    __slots__ = ("dom", "val", "extra", "root", "base")

    def __init__(self, dom, val, extra=None, root=None, base=None):
        self.dom = dom
        self.val = val
        self.extra = dict(extra or {})
        self.root = root
        self.base = base        # None: closed dict (built from {} in the code); else: name of the symbolic dict it derives from

    def strkey(self, k):
        """(present, value) of a string key.  A symbolic dict (parameter, havoc) may contain *any* string key: unknown
        keys get symbols that depend only on the symbolic dict's name, so every copy derived from it agrees on them."""
        if k in self.extra:
            return self.extra[k]
        if self.base is None:
            return (z3.BoolVal(False), z3.RealVal(0))
        return (z3.Bool("%s.has_%s" % (self.base, k)), z3.Real("%s.str_%s" % (self.base, k)))

    @staticmethod
    def empty():
        return DictV(z3.K(z3.IntSort(), z3.K(z3.IntSort(), z3.BoolVal(False))),
                     z3.K(z3.IntSort(), z3.K(z3.IntSort(), z3.RealVal(0))), {})

    def has(self, l, r):
        return z3.Select(z3.Select(self.dom, l), r)

    def get(self, l, r):
        return z3.Select(z3.Select(self.val, l), r)

    def set(self, l, r, v):
        return DictV(z3.Store(self.dom, l, z3.Store(z3.Select(self.dom, l), r, z3.BoolVal(True))),
                     z3.Store(self.val, l, z3.Store(z3.Select(self.val, l), r, v)), self.extra, self.root, self.base)


DICT_STR_KEYS = ("tss",)


def shape_of(v):
    if isinstance(v, Num):
        return INT if v.is_int else REAL
    if isinstance(v, BoolV):
        return BOOL
    if isinstance(v, NoneV):
        return NONE
    if isinstance(v, EnumV):
        return Sh("enum", (), v.cls)
    if isinstance(v, Opaque):
        return Sh("opaque", (), v.name)
    if isinstance(v, Tup):
        return Sh("tup", [shape_of(i) for i in v.items])
    if isinstance(v, Seq):
        return Sh("seq", [v.esh])
    if isinstance(v, Opt):
        return Sh("opt", [shape_of(v.val)])
    if isinstance(v, FnV):
        return FN
    if isinstance(v, DictV):
        return Sh("dict")
    raise Unsupported("shape_of %r" % (v,))


def fresh(sh, base, facts, kind="array"):
    """fresh symbolic value of shape sh; type facts (e.g. len >= 0) are appended to facts."""
    if sh.kind in ("int", "real", "bool", "enum", "opaque"):
        return leaf_val(sh, z3.Const(fresh_name(base), leaf_sort(sh)))
    if sh.kind == "none":
        return NoneV()
    if sh.kind == "tup":
        return Tup([fresh(a, "%s.%d" % (base, i), facts) for i, a in enumerate(sh.args)],
                   isrow=all(a.kind in ("int", "real") for a in sh.args))
    if sh.kind == "seq":
        esh = sh.args[0]
        n = z3.Int(fresh_name(base + ".len"))
        facts.append(n >= 0)
        arrs = [z3.Array(fresh_name("%s.a%d" % (base, i)), z3.IntSort(), leaf_sort(l))
                for i, l in enumerate(flatten_shape(esh))]
        return Seq(n, z3.IntVal(0), arrs, esh, kind)
    if sh.kind == "opt":
        return Opt(z3.Bool(fresh_name(base + ".isnone")), fresh(sh.args[0], base + ".val", facts))
    if sh.kind == "fn":
        return FnV(qual="<param:%s>" % base)
    if sh.kind == "dict":
        A2B = z3.ArraySort(z3.IntSort(), z3.ArraySort(z3.IntSort(), z3.BoolSort()))
        A2R = z3.ArraySort(z3.IntSort(), z3.ArraySort(z3.IntSort(), z3.RealSort()))
        nm = fresh_name(base)
        return DictV(z3.Const(nm + ".dom", A2B), z3.Const(nm + ".val", A2R), {}, None, nm)
    raise Unsupported("fresh %r" % (sh,))
