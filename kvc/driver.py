"""./check <property> [--tier quick|thorough] [--replay file] [--strict] [--update-expected]

Per property: (1) deductive layer - VCs generated from /repo's current source for every
function under contract, discharged with z3 (one worker process per function);
(2) bounded layer - the real functions executed under runtime-checked contracts over
enumerated input families (labelled bounded, never counted as proved);
(3) verdict, replay files, evidence/<id>.json.

exit 0: held on everything explored (UNDECIDED / KNOWN-FINDING lines possible)
exit 1: VIOLATION line(s) printed
exit 2: undecided (only with --strict)
exit 3: engine error
"""
import argparse
import hashlib
import importlib
import json
import multiprocessing as mp
import os
import re
import subprocess
import sys
import time
import traceback

ROOT = os.path.dirname(os.path.dirname(os.path.abspath(__file__)))
sys.path.insert(0, ROOT)
VENV_PY = "/venv/bin/python"
REPO = os.environ.get("KVC_REPO", "/repo")

STANDING = [
    "A-SEM: kvc's symbolic executor implements CPython/NumPy semantics for the stated subset (DESIGN 2.6)",
    "A-LIB: assumed contracts of numpy/math/uts/builtins in kvc/npmodel.py (listed per run in trusted_base)",
    "A-REAL: obligations in mode R treat float64 arithmetic as real arithmetic",
    "A-NAN: no NaN/inf reaches a comparison, argmax or argmin",
    "A-INT: no int64 overflow in index arithmetic",
    "A-NUMBA: numba-compiled metric functions behave as their Python source",
    "A-PURE-DEP: uts.* functions are deterministic functions of their arguments",
]


# ------------------------------------------------------------------------------------ deductive worker
def model_value(model, v, depth=0):
    """project a model onto a symbolic parameter value -> JSON-able python value"""
    import z3
    from kvc.values import Num, BoolV, EnumV, Tup, Seq, Opt, NoneV, FnV

    def num(t):
        r = model.eval(t, model_completion=True)
        if z3.is_int_value(r):
            return r.as_long()
        if z3.is_rational_value(r):
            f = r.as_fraction()
            return int(f) if f.denominator == 1 and False else {"num": str(f.numerator), "den": str(f.denominator)}
        if z3.is_algebraic_value(r):
            a = r.approx(20).as_fraction()
            return {"num": str(a.numerator), "den": str(a.denominator), "approx": True}
        return str(r)
    if isinstance(v, Num):
        return num(v.t)
    if isinstance(v, BoolV):
        return bool(z3.is_true(model.eval(v.t, model_completion=True)))
    if isinstance(v, EnumV):
        return {"enum": v.cls, "member": str(model.eval(v.t, model_completion=True))}
    if isinstance(v, Tup):
        return [model_value(model, i) for i in v.items]
    if isinstance(v, NoneV):
        return None
    if isinstance(v, Opt):
        if z3.is_true(model.eval(v.isnone, model_completion=True)):
            return None
        return model_value(model, v.val)
    if isinstance(v, FnV):
        return {"fn": v.qual}
    if isinstance(v, Seq):
        n = model.eval(v.n, model_completion=True)
        n = n.as_long() if z3.is_int_value(n) else 0
        out = []
        for i in range(max(0, min(n, 200))):
            out.append(model_value(model, v.at(z3.IntVal(i))))
        return {"seq": out, "len": n}
    return None


def verify_function(job):
    """runs in a worker process; returns a JSON-able dict"""
    modname, key, budget, outdir, prop = job[:5]
    only = job[5] if len(job) > 5 else None
    t0 = time.time()
    res = {"key": key, "module": modname, "obligations": [], "error": None, "unsupported": None}
    try:
        import z3
        from kvc import core
        reg = {}
        for m in CONTRACT_MODULES:
            reg.update(importlib.import_module("contracts." + m).C)
        if key.startswith("lemma:"):
            lem = importlib.import_module("contracts." + modname).LEMMAS[key[6:]]
            c = {"mode": lem.get("mode", "R"), "owner": lem.get("owner")}
            qual = lem["context"]
            ctx = core.LemmaCtx(key, lem, reg, budget=budget, prop=prop)
        else:
            c = reg[key]
            qual = c.get("function", key.split("#")[0])
            ctx = core.Ctx(qual, c, reg, budget=budget, label=key, prop=prop)
        ctx.model_value = model_value
        if only is not None:
            ctx.only = {(n_, int(k_)) for n_, k_ in only}
        try:
            ctx.run()
        except core.Unsupported as e:
            res["unsupported"] = str(e)
        mod, fdef = core.find_function(qual)
        src = mod.func_source(fdef.name)
        res.update(function=qual, file=os.path.relpath(mod.path, core.REPO), lines=[fdef.lineno, fdef.end_lineno],
                   sha256=hashlib.sha256(src.encode()).hexdigest(), mode=c.get("mode", "U"),
                   trusted=sorted(ctx.trusted), inlined=sorted(ctx.inlined), pruned=ctx.pruned,
                   callees=sorted(getattr(ctx, "callees", [])), requires_sat=getattr(ctx, "requires_sat", "?"),
                   solver_s=round(ctx.solver_time, 3), returns_seen=ctx.returns_seen, owner=c.get("owner"),
                   assumed=list(c.get("ensures_assumed", [])) + list(c.get("axioms", [])))
        os.makedirs(outdir, exist_ok=True)
        seen = {}
        for o in ctx.obligs:
            k = seen.get(o.name, 0)
            seen[o.name] = k + 1
            if o.status == "skipped":
                continue
            d = {"name": o.name, "occ": k, "kind": o.kind, "status": o.status, "time_s": round(o.time, 3),
                 "line": o.lineno, "reason": o.reason, "tag": o.tag, "cpu_ratio": getattr(o, "cpu_ratio", None)}
            if o.status != "discharged":
                fn = os.path.join(outdir, re.sub(r"[^A-Za-z0-9_.-]+", "_", "%s__%s__%d" % (key, o.name[:80], k)) + ".smt2")
                try:
                    with open(fn, "w") as f:
                        f.write(o.smt2_text if o.smt2_text else core.to_smt2(o.hyps, o.goal))
                    d["smt2"] = fn
                except Exception:
                    pass
            if o.status == "failed" and o.model_args is not None:
                d["model_args"] = o.model_args          # projected in the proving process (parallel discharge)
            elif o.status == "failed" and o.model_error:
                d["model_args_error"] = o.model_error
            elif o.status == "failed" and o.model is not None:
                try:
                    d["model_args"] = {p: model_value(o.model, v) for p, v in ctx.old_env.items()}
                except Exception as e:
                    d["model_args_error"] = repr(e)
                try:
                    d["model_text"] = str(o.model)[:4000]
                except Exception:
                    pass
            res["obligations"].append(d)
        # one sample VC written out in full for the evidence
        for o in ctx.obligs:
            if o.status == "discharged" and o.reason == "z3" and "sample_smt2" not in res:
                res["sample_goal"] = {"name": o.name, "goal": o.goal.sexpr()[:600]}
                break
    except Exception:
        res["error"] = traceback.format_exc()
    res["wall_s"] = round(time.time() - t0, 3)
    return res


CONTRACT_MODULES = []


def _job_main(job, q):
    q.put(verify_function(job))


# ------------------------------------------------------------------------------------ machine calibration
REF_SPEED = 4400.0      # iterations of _spin's inner block per CPU-second on the machine the time limits were tuned on
CAL = {}


def _spin(q, stop, wall, windows):
    x = 1
    for w in range(windows):
        if stop.is_set():
            break
        t0 = time.time()
        c0 = time.process_time()
        n = 0
        while time.time() - t0 < wall:
            for _ in range(2000):
                x = (x * 1103515245 + 12345) & 0x7fffffff
            n += 1
        q.put((w, n, time.process_time() - c0, time.time() - t0))


def calibrate():
    """How many cores does this run really get, and how fast are they?  os.cpu_count() says what the machine has, not what a
    cgroup quota, an affinity mask, a busy host or other jobs leave; with more solver processes than cores every wall-clock limit
    of the discharge procedure shrinks by the oversubscription factor and proofs that need 0.2 s of a 1.5 s limit time out
    (observed: 16 reported / 2 effective cores).  Measured: cpu_count() processes spin through windows of 0.4 s wall time; the CPU
    time they got in a window / its wall time = effective cores; iterations per CPU-second against the reference machine =
    slowness.  Freshly forked processes are spread over idle (v)CPUs only after a second or so - the first windows under-report -
    so at least three windows are taken, until two consecutive ones agree, and the larger of the last two counts.
    The result sizes the process pools and the factor core.TS by which every wall-clock limit is multiplied.
    KVC_CORES / KVC_TSCALE override the measurement."""
    if CAL:
        return CAL
    n = os.cpu_count() or 4
    eff, speed, hist = float(n), REF_SPEED, []
    ps = []
    try:
        q = mp.Queue()
        stop = mp.Event()
        windows = 8
        ps = [mp.Process(target=_spin, args=(q, stop, 0.4, windows)) for _ in range(n)]
        for p in ps:
            p.start()
        got = {}
        for w in range(windows):
            while len(got.get(w, [])) < n:
                r = q.get(timeout=60)
                got.setdefault(r[0], []).append(r)
            cpu = sum(r[2] for r in got[w])
            wall = sum(r[3] for r in got[w]) / n
            hist.append(round(cpu / wall, 2))
            if len(hist) >= 3 and abs(hist[-1] - hist[-2]) <= 0.2 * max(hist[-1], hist[-2]):
                k = w if hist[-1] >= hist[-2] else w - 1
                eff = hist[k]
                speed = sum(r[1] for r in got[k]) / max(sum(r[2] for r in got[k]), 1e-6)
                break
            eff = hist[-1]
            speed = sum(r[1] for r in got[w]) / max(cpu, 1e-6)
        stop.set()
    except Exception:
        pass
    for p in ps:
        p.join(3)
        if p.is_alive():
            p.terminate()
    cores = max(1, min(n, int(eff + 0.5)))
    ts = min(8.0, max(1.0, REF_SPEED / max(speed, 1.0)))
    if os.environ.get("KVC_CORES"):
        cores = max(1, int(os.environ["KVC_CORES"]))
    if os.environ.get("KVC_TSCALE"):
        ts = float(os.environ["KVC_TSCALE"])
    CAL.update(reported_cores=n, effective_cores=cores, measured=hist, slowness=round(REF_SPEED / max(speed, 1.0), 2), time_scale=round(ts, 2))
    return CAL


def run_jobs(jobs, limit, second_pass=False):
    """one process per function under contract, at most 14 at a time (and never more than the effective cores), each with a hard
    wall-clock limit (z3 does not always honour its own timeout; a function that exceeds the limit is *undecided*, never a verdict)"""
    results = []
    pending = list(jobs)
    running = []
    # obligations are proved in forked children of the per-function workers: at most KVC_PAR per function (default 6) and NCPU in all
    from kvc import core
    cal = calibrate()
    cores = cal["effective_cores"]
    core.TS = cal["time_scale"]
    core.SECOND_PASS = bool(second_pass)
    limit = limit * max(1.0, core.TS)
    workers = max(1, min(14, cores if cores >= 8 else (cores + 1) // 2))
    if "KVC_PAR" not in os.environ:
        core.PAR = 6
    if core.PAR > 1:
        core.SOLVER_SLOTS = mp.BoundedSemaphore(max(1, cores))
    while pending or running:
        while pending and len(running) < workers:
            job = pending.pop(0)
            q = mp.Queue()
            p = mp.Process(target=_job_main, args=(job, q))
            p.start()
            running.append((job, p, q, time.time()))
        time.sleep(0.2)
        still = []
        for job, p, q, t0 in running:
            res = None
            try:
                res = q.get_nowait()
            except Exception:
                pass
            if res is not None:
                p.join(5)
                results.append((jobs.index(job), res))
            elif not p.is_alive():
                try:
                    res = q.get(timeout=2)
                    results.append((jobs.index(job), res))
                except Exception:
                    results.append((jobs.index(job), {"key": job[1], "module": job[0], "obligations": [], "error": "worker died without a result", "unsupported": None}))
            elif time.time() - t0 > limit:
                p.terminate()
                p.join(5)
                results.append((jobs.index(job), {"key": job[1], "module": job[0], "obligations": [], "error": None, "function": job[1].split("#")[0],
                                                  "unsupported": "hard time limit of %ds exceeded (solver did not return)" % limit,
                                                  "file": "?", "lines": [0, 0], "sha256": "", "trusted": [], "wall_s": limit}))
            else:
                still.append((job, p, q, t0))
        running = still
    results.sort(key=lambda t: t[0])
    return [r for _, r in results]


# ------------------------------------------------------------------------------------ helpers
def load_known():
    path = os.path.join(ROOT, "KNOWN_FINDINGS.txt")
    finds = []
    if os.path.exists(path):
        for line in open(path):
            line = line.strip()
            if line.startswith("finding:"):
                kv = dict(re.findall(r"(\w+)=(\"[^\"]*\"|\S+)", line[len("finding:"):]))
                kv = {k: v.strip('"') for k, v in kv.items()}
                kv["_line"] = line
                finds.append(kv)
    return finds


def norm_name(name):
    return re.sub(r"\s+", " ", name)


def run_bounded(prop, tier, seed, outdir):
    """bounded layer: rt/<prop>.py under the repository's interpreter."""
    script = os.path.join(ROOT, "rt", "%s.py" % prop.lower())
    if not os.path.exists(script):
        return None
    out = os.path.join(outdir, "bounded.json")
    env = dict(os.environ)
    env["PYTHONPATH"] = os.path.join(REPO, "src") + os.pathsep + ROOT
    env["KVC_REPO"] = REPO
    env["NUMBA_DISABLE_JIT"] = env.get("NUMBA_DISABLE_JIT", "0")
    cmd = [VENV_PY, "-B", script, "--tier", tier, "--seed", str(seed), "--out", out]
    t0 = time.time()
    p = subprocess.run(cmd, env=env, capture_output=True, text=True, timeout=3600 * 3)
    if p.returncode not in (0, 1) or not os.path.exists(out):
        return {"error": "bounded layer crashed (rc=%s)\n%s\n%s" % (p.returncode, p.stdout[-3000:], p.stderr[-3000:])}
    r = json.load(open(out))
    r["wall_s"] = round(time.time() - t0, 2)
    return r


def replay_model(prop, key, contract_module, oblig, outdir):
    """replay a counter-model on the real function under the runtime-checked contract."""
    if "model_args" not in oblig:
        return None
    req = {"key": key, "contract_module": contract_module, "args": oblig["model_args"]}
    inp = os.path.join(outdir, "replay_in.json")
    outp = os.path.join(outdir, "replay_out.json")
    json.dump(req, open(inp, "w"))
    env = dict(os.environ)
    env["PYTHONPATH"] = os.path.join(REPO, "src") + os.pathsep + ROOT
    try:
        p = subprocess.run([VENV_PY, "-B", os.path.join(ROOT, "rt", "replay.py"), inp, outp], env=env,
                           capture_output=True, text=True, timeout=120)
    except subprocess.TimeoutExpired:
        return {"outcome": "timeout", "detail": "real function did not return within 120 s on the counter-model input",
                "violates": True}
    if not os.path.exists(outp):
        return {"outcome": "replay-crashed", "detail": (p.stdout + p.stderr)[-2000:], "violates": False}
    r = json.load(open(outp))
    os.remove(outp)
    return r


# ------------------------------------------------------------------------------------ main
def main():
    ap = argparse.ArgumentParser()
    ap.add_argument("prop")
    ap.add_argument("--tier", default=os.environ.get("VERIF_TIER", "quick"))
    ap.add_argument("--replay")
    ap.add_argument("--strict", action="store_true")
    ap.add_argument("--update-expected", action="store_true")
    ap.add_argument("--no-bounded", action="store_true")
    ap.add_argument("--only", help="only contract keys containing this substring")
    a = ap.parse_args()
    prop = a.prop.upper()
    tier = a.tier if a.tier in ("quick", "thorough") else "quick"
    seed = int(os.environ.get("VERIF_SEED", "0") or 0)
    t0 = time.time()
    cfg = importlib.import_module("props." + prop.lower())
    global CONTRACT_MODULES
    CONTRACT_MODULES = cfg.CONTRACT_MODULES
    outdir = os.path.join(ROOT, "out", prop)
    os.makedirs(outdir, exist_ok=True)
    os.makedirs(os.path.join(ROOT, "evidence"), exist_ok=True)
    os.makedirs(os.path.join(ROOT, "out", "replay"), exist_ok=True)

    if a.replay:
        return do_replay(prop, a.replay)

    budget = 20.0 if tier == "quick" else 90.0
    # an entry (module, key, "thorough") is verified in the thorough tier only (functions whose VCs need more than the quick limit)
    skipped_quick = [e[1] for e in cfg.DEDUCTIVE if len(e) > 2 and e[2] == "thorough" and tier == "quick"]
    jobs = [(e[0], e[1], budget, os.path.join(outdir, "vc"), prop) for e in cfg.DEDUCTIVE
            if (not a.only or a.only in e[1]) and not (len(e) > 2 and e[2] == "thorough" and tier == "quick")]
    hard_limit = 900 if tier == "quick" else 3600
    results = run_jobs(jobs, hard_limit)
    # second pass: z3's run time on these VCs is heavy-tailed and every limit of the discharge procedure is a wall-clock one, so an
    # obligation left *undecided* (never one that failed with a counter-model) is tried once more - it alone, not the whole function -
    # after the rest of the work has finished (fewer processes competing), with the short limits (<= 2.5 s: side proofs, first
    # phases) tripled, the long ones x1.5 and a shorter restart portfolio.  Both passes are logged in the evidence.
    retried = []

    def _undec(r):
        if r.get("error"):
            return 0
        if (r.get("unsupported") or "").startswith("hard time limit"):
            return 10 ** 6
        return sum(o["status"] == "undecided" for o in r.get("obligations", []))

    def _starved(o):
        # the proof had a CPU for less than 3/4 of its wall time (or nothing is known): its wall-clock limits were cut short.
        # An obligation that stayed undecided although it had the CPU to itself is undecided at this budget; repeating it is pointless.
        return o["status"] == "undecided" and (o.get("cpu_ratio") is None or o["cpu_ratio"] < 0.75 or os.environ.get("KVC_RETRY_ALL"))
    again = [i for i, r in enumerate(results) if _undec(r) > 0 and (_undec(r) == 10 ** 6 or any(_starved(o) for o in r["obligations"]))]
    if again and not os.environ.get("KVC_NO_RETRY"):
        jobs2 = []
        for i in again:
            whole = (results[i].get("unsupported") or "").startswith("hard time limit")
            sel = None if whole else [(o["name"], o["occ"]) for o in results[i]["obligations"] if _starved(o)]
            jobs2.append(tuple(jobs[i]) + (sel,))
        second = run_jobs(jobs2, hard_limit, second_pass=True)
        for i, j2, r2 in zip(again, jobs2, second):
            rec = {"function": jobs[i][1], "undecided_first_pass": min(_undec(results[i]), 9999)}
            if r2.get("error") or (r2.get("unsupported") or "").startswith("hard time limit"):
                rec.update(second_pass="no result", undecided_after=rec["undecided_first_pass"])
            elif j2[5] is None:
                if _undec(r2) < _undec(results[i]):
                    results[i] = r2
                rec["undecided_after"] = min(_undec(results[i]), 9999)
            else:
                new = {(o["name"], o["occ"]): o for o in r2.get("obligations", [])}
                for k_, o in enumerate(results[i]["obligations"]):
                    o2 = new.get((o["name"], o["occ"]))
                    if o["status"] == "undecided" and o2 is not None and o2["status"] != "undecided":
                        o2 = dict(o2, time_s=round(o["time_s"] + o2["time_s"], 3), reason=(o2.get("reason") or "z3") + " [second pass]")
                        results[i]["obligations"][k_] = o2
                results[i]["solver_s"] = round(results[i].get("solver_s", 0) + r2.get("solver_s", 0), 3)
                results[i]["wall_s"] = round(results[i].get("wall_s", 0) + r2.get("wall_s", 0), 3)
                rec["undecided_after"] = _undec(results[i])
            retried.append(rec)

    # ---- expected floor (vacuity / stale contract guard)
    exp_path = os.path.join(ROOT, "contracts", "EXPECTED.json")
    expected = json.load(open(exp_path)) if os.path.exists(exp_path) else {}
    if a.update_expected:
        for r in results:
            expected["%s:%s" % (prop, r["key"])] = {
                "min_obligations": len(r["obligations"]),
                "discharged": sorted({norm_name(o["name"]) for o in r["obligations"] if o["status"] == "discharged"}),
            }
        json.dump(expected, open(exp_path, "w"), indent=0, sort_keys=True)
        print("expected floor updated for", prop)

    known = [k for k in load_known() if k.get("property") == prop]
    violations = []
    undecided = []
    known_hits = []
    engine_errors = []
    n_obl = n_dis = 0
    funcs = []
    backends = {}
    trusted = set()
    samples = []
    solver_s = 0.0
    try:      # per-obligation log of this run (status, seconds, deciding phase): used to spot slow / unstable obligations
        with open(os.path.join(ROOT, "out", prop, "obligations_%s.json" % tier), "w") as f_:
            json.dump([{"function": r["key"], "wall_s": r.get("wall_s"), "obligations": [
                {k: o.get(k) for k in ("name", "occ", "status", "time_s", "reason", "line", "cpu_ratio")} for o in r.get("obligations", [])]} for r in results], f_, indent=0)
    except Exception:
        pass
    for r in results:
        if r["error"]:
            engine_errors.append("%s: %s" % (r["key"], r["error"]))
            continue
        funcs.append({k: r.get(k) for k in ("key", "function", "file", "lines", "sha256", "mode", "inlined", "callees",
                                             "pruned", "requires_sat", "solver_s", "wall_s", "assumed")})
        funcs[-1]["obligations"] = len(r["obligations"])
        funcs[-1]["discharged"] = sum(o["status"] == "discharged" for o in r["obligations"])
        # which back end / phase of the discharge procedure closed each obligation (measured on this run)
        by = {}
        for o in r["obligations"]:
            if o["status"] == "discharged":
                by[o.get("reason") or "z3"] = by.get(o.get("reason") or "z3", 0) + 1
        funcs[-1]["discharged_by"] = by
        for k_, v_ in by.items():
            backends[k_] = backends.get(k_, 0) + v_
        trusted.update(r.get("trusted", []))
        for q in r.get("assumed", []):
            trusted.add("assumed clause in contract of %s: %s" % (r["key"], q))
        solver_s += r.get("solver_s", 0)
        if r.get("sample_goal"):
            samples.append({"function": r["key"], **r["sample_goal"]})
        if r["unsupported"]:
            undecided.append({"function": r["key"], "obligation": "(whole function)", "reason": "unsupported construct: " + r["unsupported"]})
        exp = expected.get("%s:%s" % (prop, r["key"]))
        names_now = {}
        for o in r["obligations"]:
            names_now.setdefault(norm_name(o["name"]), []).append(o)
        if exp and not r["unsupported"]:
            if len(r["obligations"]) < 0.5 * exp["min_obligations"]:
                undecided.append({"function": r["key"], "obligation": "(obligation floor)",
                                  "reason": "only %d obligations generated, floor is %d (stale contract?)" % (len(r["obligations"]), exp["min_obligations"])})
        if r.get("requires_sat") == "unsat":
            engine_errors.append("%s: precondition is unsatisfiable (vacuous contract)" % r["key"])
        for o in r["obligations"]:
            n_obl += 1
            if o["status"] == "discharged":
                n_dis += 1
                continue
            if o["status"] == "undecided":
                undecided.append({"function": r["key"], "obligation": o["name"], "reason": o["reason"], "smt2": o.get("smt2")})
                continue
            # failed: counter-model exists
            if o.get("tag") is None and r.get("owner") and r["owner"] != prop:
                undecided.append({"function": r["key"], "obligation": o["name"],
                                  "reason": "a base obligation owned by %s failed (see ./check %s); %s's own clauses rest on it" % (r["owner"], r["owner"], prop)})
                continue
            kf = None
            for k in known:
                if k.get("function") == r["function"].split(".")[-1] or k.get("function") == r["function"]:
                    pat = k.get("obligation", "")
                    if pat and pat in o["name"]:
                        kf = k
                        break
            if kf is not None:
                known_hits.append((kf, r["key"], o["name"]))
                continue
            rep = replay_model(prop, r["key"], r["module"], o, outdir)
            violations.append({"function": r["key"], "qual": r["function"], "obligation": o["name"], "line": o["line"],
                               "file": r["file"], "sha256": r["sha256"], "solver": o["reason"], "smt2": o.get("smt2"),
                               "model_args": o.get("model_args"), "model_text": o.get("model_text"), "replay": rep})

    # ---- bounded layer
    bounded = None
    if not a.no_bounded:
        try:
            bounded = run_bounded(prop, tier, seed, outdir)
        except subprocess.TimeoutExpired:
            bounded = {"error": "bounded layer timed out"}
    bviol = []
    if bounded:
        if bounded.get("error"):
            engine_errors.append("bounded layer: " + bounded["error"])
        for v in bounded.get("violations", []):
            kf = None
            for k in known:
                if k.get("witness") and k["witness"] == v.get("witness_id"):
                    kf = k
            if kf is not None:
                known_hits.append((kf, "bounded", v.get("what", "")))
            else:
                bviol.append(v)

    # ---- report
    exit_code = 0
    seen_kf = set()
    for kf, key, name in known_hits:
        if kf["_line"] in seen_kf:
            continue
        seen_kf.add(kf["_line"])
        print("KNOWN-FINDING: property=%s %s" % (prop, re.sub(r"^property=\S+\s*", "", kf["_line"][len("finding:"):].strip())))
    nviol = 0
    for i, v in enumerate(violations):
        nviol += 1
        path = os.path.join(ROOT, "out", "replay", "%s-%d-%s.json" % (prop, i, re.sub(r"[^A-Za-z0-9]+", "_", v["obligation"])[:60]))
        rep = v.get("replay") or {}
        found = bool(rep.get("violates"))
        v["kind"] = "failed-obligation"
        v["failing_input_found"] = found
        json.dump(v, open(path, "w"), indent=1, default=str)
        print("failed obligation: %s :: %s (line %s of %s) - %s" % (v["function"], v["obligation"], v["line"], v["file"],
                                                                     rep.get("outcome", "no replay")))
        print("VIOLATION property=%s replay=%s%s" % (prop, path, "" if found else " no-failing-input-found"))
        exit_code = 1
    for i, v in enumerate(bviol[:20]):
        nviol += 1
        path = os.path.join(ROOT, "out", "replay", "%s-bounded-%d.json" % (prop, i))
        v["kind"] = "bounded-layer-counterexample"
        json.dump(v, open(path, "w"), indent=1, default=str)
        print("bounded layer: %s" % v.get("what", "")[:300])
        print("VIOLATION property=%s replay=%s" % (prop, path))
        exit_code = 1
    for u in undecided:
        print("UNDECIDED property=%s function=%s obligation=%s reason=%s" % (prop, u["function"], u["obligation"][:100], u["reason"][:200]))
    for e in engine_errors:
        print("ENGINE-ERROR property=%s %s" % (prop, e[:3000]))

    # ---- evidence
    level = cfg.LEVEL
    proof_ok = (n_obl > 0 and n_dis == n_obl and not undecided)
    if level == "proof" and not proof_ok and not violations:
        level = "other"
    cov = {
        "obligations": n_obl, "discharged": n_dis,
        "checker_cmd": "cd /verif && ./check %s --tier %s   # per obligation: z3 (python API 5.1.0) on VCs generated from %s/src/kneeliverse; "
                       "undischarged VCs are written to out/%s/vc/*.smt2 and can be re-run with `z3-new <file>`" % (prop, tier, REPO, prop),
        "trusted_base": sorted(trusted) + ["kvc symbolic executor (A-SEM)", "z3 5.1.0"],
        "functions_under_contract": funcs,
        "samples": samples[:6] + ([{"bounded_case": s} for s in (bounded or {}).get("samples", [])[:4]]),
        "undecided": undecided,
        "known_findings_matched": [kf["_line"] for kf, _, _ in known_hits],
        "solver_time_s": round(solver_s, 2),
        "discharged_by_backend": backends,
        "backend": "z3 5.1.0 (python API), default tactic, per-obligation timeout %ds" % budget,
        "bounded": {k: v for k, v in (bounded or {}).items() if k not in ("violations", "samples")} if bounded else None,
        "explanation": cfg.EXPLANATION,
        "deductive_seed_independent": True,
        "machine": dict(calibrate(), note="wall-clock limits of the discharge procedure are multiplied by time_scale; process pools sized by effective_cores"),
        "second_pass": retried,
        "verified_in_thorough_tier_only": skipped_quick,
    }
    if bounded and "cases" in bounded:
        cov["evaluations"] = int(bounded.get("cases", 0))
        cov["distinct_nontrivial"] = int(bounded.get("distinct_nontrivial", 0))
        cov["rule"] = bounded.get("rule", "")
    ev = {"property_id": prop, "tier": tier, "seed": seed, "level": level, "coverage": cov,
          "assumptions": STANDING + list(getattr(cfg, "ASSUMPTIONS", [])), "wall_s": round(time.time() - t0, 2),
          "violations": nviol}
    # evidence/ describes runs against /repo only; runs against a scratch copy (KVC_REPO, used by the self-tests) go to out/
    evdir = os.path.join(ROOT, "evidence") if os.path.realpath(REPO) == "/repo" else os.path.join(ROOT, "out", "evidence_scratch")
    os.makedirs(evdir, exist_ok=True)
    json.dump(ev, open(os.path.join(evdir, "%s.json" % prop), "w"), indent=1, default=str)
    print("%s: %d/%d obligations discharged over %d functions; bounded cases=%s; undecided=%d; violations=%d; %.1fs" % (
        prop, n_dis, n_obl, len(funcs), (bounded or {}).get("cases"), len(undecided), nviol, time.time() - t0))
    if engine_errors and exit_code == 0:
        return 3
    if a.strict and undecided and exit_code == 0:
        return 2
    return exit_code


def do_replay(prop, path):
    v = json.load(open(path))
    print(json.dumps({k: v.get(k) for k in ("kind", "function", "obligation", "what", "model_args", "input", "replay")},
                     indent=1, default=str)[:6000])
    if v.get("kind") == "bounded-layer-counterexample":
        script = os.path.join(ROOT, "rt", "%s.py" % prop.lower())
        env = dict(os.environ)
        env["PYTHONPATH"] = os.path.join(REPO, "src") + os.pathsep + ROOT
        p = subprocess.run([VENV_PY, "-B", script, "--replay", path], env=env)
        return p.returncode
    if v.get("model_args") is not None:
        outdir = os.path.join(ROOT, "out", prop)
        rep = replay_model(prop, v["function"], None, {"model_args": v["model_args"]}, outdir)
        print(json.dumps(rep, indent=1, default=str))
        return 1 if rep and rep.get("violates") else 0
    return 0


if __name__ == "__main__":
    try:
        rc = main()
    except SystemExit:
        raise
    except BaseException:
        traceback.print_exc()
        print("ENGINE-ERROR: the check crashed (no verdict)")
        rc = 3
    sys.exit(rc)
