"""C10 bounded layer: Z-method knees are valid, height-ordered and mutually separated."""
import math, warnings
import numpy as np
import kneeliverse.zmethod as zm
from rt.common import Harness, guarded, Timeout, curve

warnings.filterwarnings("ignore")


def check(H, name, P, dx, dy, dz, x_max=None, y_range=None):
    n = len(P)
    inp = {"curve": name, "points": P, "dx": dx, "dy": dy, "dz": dz, "x_max": x_max, "y_range": y_range}
    H.case((name, dx, dy, dz, x_max, tuple(y_range) if y_range else None), sample={k: v for k, v in inp.items() if k != "points"})
    try:
        got = guarded(zm.knees, P.copy(), dx, dy, dz, x_max, y_range, limit=60)
    except Timeout:
        H.violation("zmethod.knees(dx=%s,dy=%s,dz=%s) on %s did not return within 60 s" % (dx, dy, dz, name), inp, clause="termination")
        return
    except Exception as e:
        H.violation("zmethod.knees(dx=%s,dy=%s,dz=%s,x_max=%s,y_range=%s) on %s raised %s: %s" % (dx, dy, dz, x_max, y_range, name, type(e).__name__, str(e)[:100]), inp, clause="completes")
        return
    got = [int(v) for v in np.asarray(got).ravel()]
    if any(not (0 <= v < n) for v in got) or any(b <= a for a, b in zip(got, got[1:])):
        H.violation("zmethod.knees on %s = %s: not strictly increasing valid indices" % (name, got), inp, clause="valid")
        return
    hs = [float(P[v][1]) for v in got]
    if any(hs[i] < hs[i + 1] for i in range(len(hs) - 1)):
        H.violation("zmethod.knees(dx=%s,dy=%s,dz=%s) on %s = %s: heights %s are not non-increasing" % (dx, dy, dz, name, got, hs), inp, clause="heights")
        return
    xw = max(1, int(math.floor((x_max if x_max else n) * dx)))
    ymax, ymin = (y_range if y_range else (float(P[:, 1].max()), float(P[:, 1].min())))
    yh = (ymax - ymin) * dy
    for i in range(len(got)):
        for j in range(i + 1, len(got)):
            ddx = abs(float(P[got[i]][0]) - float(P[got[j]][0]))
            ddy = abs(float(P[got[i]][1]) - float(P[got[j]][1]))
            if ddx < xw or ddy < yh - 1e-15:
                H.violation("zmethod.knees(dx=%s,dy=%s,dz=%s,x_max=%s) on %s = %s: knees %d and %d are %s apart in x (required %s) and %r apart in y (required %r)" % (
                    dx, dy, dz, x_max, name, got, got[i], got[j], ddx, xw, ddy, yh), inp, clause="separation")
                return


def run(H, tier, rng):
    curves = []
    for n in (4, 5, 8, 12, 20, 40, 60):
        x = np.arange(n, dtype=float)
        curves.append(("hyper0-%d" % n, curve(x, 1.0 / (1 + x))))
        curves.append(("hyper1-%d" % n, curve(x + 1, 1.0 / (1 + x))))
        curves.append(("exp-%d" % n, curve(x, np.exp(-x / 3.0))))
        curves.append(("lin-%d" % n, curve(x, 1 - x / n)))
        curves.append(("flat-%d" % n, curve(x, np.full(n, 0.5))))
        curves.append(("stairs-%d" % n, curve(x, np.round(np.exp(-x / 4.0), 1))))
        xs = np.cumsum([rng.choice([1, 2, 5]) for _ in range(n)]).astype(float)
        curves.append(("gaps-%d" % n, curve(xs, np.sort(np.array([rng.random() for _ in range(n)]))[::-1])))
        curves.append(("nonmono-%d" % n, curve(x, np.clip(np.exp(-x / 5.0) + 0.08 * np.sin(x * 1.3), 0, 1))))
        curves.append(("rand-%d" % n, curve(x, np.array([rng.random() for _ in range(n)]))))
    curves.append(("bump-8", curve(np.arange(1, 9), [0.93, 0.84, 0.51, 0.51, 0.61, 0.56, 0.09, 0.01])))
    # seeded random family: steep power laws, staircases with repeated heights and sorted random heights over uneven integer spacing,
    # with random (dx, dy, dz) - single-site changes of the band filters only show on curves where both branches of the round are exercised
    for k in range(150 if tier == "quick" else 2500):
        n = rng.randint(6, 60)
        xs = np.cumsum([rng.choice([1, 1, 2, 3]) for _ in range(n)]).astype(float)
        kind = rng.choice(["steep", "stairs", "rand"])
        if kind == "steep":
            ys = 1.0 / (1.0 + 0.3 * np.arange(n)) ** rng.choice([1, 2, 3])
        elif kind == "stairs":
            ys = np.array(sorted([rng.choice([1.0, .8, .6, .4, .3, .2, .1, .05]) for _ in range(n)], reverse=True))
        else:
            ys = np.array(sorted([rng.random() for _ in range(n)], reverse=True))
        check(H, "%s-%d-#%d" % (kind, n, k), curve(xs, ys), rng.choice([.05, .1, .2, .3]), rng.choice([.01, .02, .05, .1]), rng.choice([.05, .2, .5]))
        if len(H.violations) >= 20:
            return
    params = [(0.05, 0.05, 0.05), (0.1, 0.1, 0.1), (0.25, 0.05, 0.5), (0.05, 0.3, 1.0), (1.0, 1.0, 1.0), (0.02, 0.02, 0.2)]
    for name, P in curves:
        for dx, dy, dz in params:
            check(H, name, P, dx, dy, dz)
            if len(H.violations) >= 20:
                return
        check(H, name, P, 0.05, 0.05, 0.05, x_max=int(P[-1][0]) + 10)
        check(H, name, P, 0.1, 0.1, 0.1, y_range=[1.0, 0.0])
        check(H, name, P, 0.1, 0.1, 0.1, x_max=3 * len(P), y_range=[1.0, 0.0])


if __name__ == "__main__":
    Harness("C10", "miss-ratio-like curves (hyperbolas on 0- and 1-based grids, exponentials, linear, flat, staircases, gapped x, non-monotone bumps, "
            "random) with n in {4,...,60} x 6 (dx,dy,dz) settings in (0,1] x optional x_max / y_range overrides, plus a seeded random family "
            "(steep power laws, staircases, sorted random heights over uneven spacing, random settings: 150 quick / 2500 thorough); validity, height order and "
            "pairwise separation checked from the statement", "n <= 60").main(run)
