"""C13 bounded layer: worst-knee filter = greedy running-minimum subsequence; corner filter / selector partition by IoU."""
import itertools
from fractions import Fraction as F
import numpy as np
import kneeliverse.postprocessing as pp
from rt.common import Harness, curve


def running_min(points, knees):
    out = []
    hmin = None
    for i, k in enumerate(knees):
        h = points[k][1]
        if i == 0 or h <= hmin:
            out.append(int(k))
            hmin = h
    return out


def iou(points, k):
    """the statement's construction in exact arithmetic: corner rectangle (p0.x,p2.y)-(p1) vs neighbour rectangle p0-p2"""
    (x0, y0), (x1, y1), (x2, y2) = [(F(float(a)), F(float(b))) for a, b in points[k - 1:k + 2]]
    amin, amax = (min(x0, x1), min(y2, y1)), (max(x0, x1), max(y2, y1))
    bmin, bmax = (min(x0, x2), min(y0, y2)), (max(x0, x2), max(y0, y2))
    dx = max(F(0), min(amax[0], bmax[0]) - max(amin[0], bmin[0]))
    dy = max(F(0), min(amax[1], bmax[1]) - max(amin[1], bmin[1]))
    inter = dx * dy
    if inter <= 0:
        return F(0)
    a = (amax[0] - amin[0]) * (amax[1] - amin[1])
    b = (bmax[0] - bmin[0]) * (bmax[1] - bmin[1])
    return inter / (a + b - inter)


def check(H, name, pts, knees, t):
    inp = {"curve": name, "points": pts, "knees": list(knees), "t": t}
    kn = np.array(knees, dtype=int)
    before = (pts.copy(), kn.copy())
    got = [int(v) for v in pp.filter_worst_knees(pts, kn)]
    want = running_min(pts, knees)
    if got != want:
        H.violation("filter_worst_knees(%s) on %s = %s, greedy running minimum is %s" % (list(knees), name, got, want), inp, clause="worst")
        return
    again = [int(v) for v in pp.filter_worst_knees(pts, np.array(got, dtype=int))] if got else []
    if again != got:
        H.violation("filter_worst_knees not idempotent on %s: %s -> %s" % (name, got, again), inp, clause="worst-idem")
        return
    n = len(pts)
    both = [k for k in knees if k - 1 >= 0 and k + 1 < n]
    tt = F(t).limit_denominator(10 ** 6) if not isinstance(t, F) else t
    ious = {k: iou(pts, k) for k in both}
    if any(v != tt and abs(v - tt) < F(1, 10 ** 9) for v in ious.values()):
        H.note("skipped: IoU within 1e-9 of t")
        return
    fk = [int(v) for v in pp.filter_corner_knees(pts, kn, float(t))]
    sk = [int(v) for v in pp.select_corner_knees(pts, kn, float(t))]
    wf = [k for k in knees if k not in ious or ious[k] < tt]
    ws = [k for k in knees if k in ious and ious[k] >= tt]
    if fk != wf or sk != ws:
        H.violation("corner filter/selector on %s knees=%s t=%s: filter=%s (rule %s), selector=%s (rule %s); IoU=%s" % (
            name, list(knees), t, fk, wf, sk, ws, {k: float(v) for k, v in ious.items()}), inp, clause="corner")
        return
    if sorted(fk + sk) != sorted(knees):
        H.violation("corner filter and selector do not partition %s: %s + %s" % (list(knees), fk, sk), inp, clause="partition")
        return
    for f, r in ((pp.filter_corner_knees, fk), (pp.select_corner_knees, sk)):
        if r and [int(v) for v in f(pts, np.array(r, dtype=int), float(t))] != r:
            H.violation("%s not idempotent on %s: %s" % (f.__name__, name, r), inp, clause="corner-idem")
            return
    if not (np.array_equal(before[0], pts) and np.array_equal(before[1], kn)):
        H.violation("a filter modified its arguments", inp, clause="frame")


def replay(inp):
    H = Harness("C13", "", "")
    check(H, inp["curve"], np.array(inp["points"], dtype=float), inp["knees"], inp["t"])
    return H.violations[0]["what"] if H.violations else None


def run(H, tier, rng):
    curves = []
    # small integer grids: equal heights, flat / vertical neighbour configurations, rising and falling
    ys_sets = [[6, 3, 1, 0, 0, 3, 4], [5, 5, 5, 5, 5], [9, 7, 7, 4, 4, 4, 1], [0, 1, 2, 3, 4, 5], [8, 2, 2, 2, 9, 1, 1], [4, 0, 4, 0, 4, 0],
               [100, 60, 40, 40, 30, 20, 12, 12, 8, 5, 3, 1]]
    for ys in ys_sets:
        curves.append(("grid-%s" % "".join(map(str, ys))[:12], curve(np.arange(len(ys)), ys)))
    curves.append(("nonmono", curve([0, 1, 2, 3, 4.8, 5, 6], [6, 3, 1, 0, 0.1, 3, 3.5])))
    for i in range(6 if tier == "quick" else 40):
        n = rng.randint(5, 9)
        xs = np.cumsum([rng.choice([1, 2, 3]) for _ in range(n)])
        curves.append(("rand-%d" % i, curve(xs, [rng.randint(0, 6) for _ in range(n)])))
    ts = [0.0, 0.2, 0.33, 0.5, 1.0]
    for name, pts in curves:
        n = len(pts)
        idxs = list(range(n))
        subsets = [c for r in range(1, min(n, 5) + 1) for c in itertools.combinations(idxs, r)] if n <= 7 else \
            [tuple(sorted(rng.sample(idxs, rng.randint(1, n)))) for _ in range(60)] + [tuple(idxs)]
        for knees in subsets:
            for t in ts:
                H.case((name, knees, t), nontrivial=len(knees) > 1, sample={"curve": name, "knees": list(knees), "t": t})
                check(H, name, pts, list(knees), t)
                if len(H.violations) >= 20:
                    return
            # thresholds equal to an actual IoU (boundary)
            for k in knees:
                if 0 < k < n - 1:
                    v = iou(pts, k)
                    if 0 < v <= 1 and float(v) == v:
                        H.case((name, knees, "tie", k))
                        check(H, name, pts, list(knees), float(v))
    H.exhaustive = False


if __name__ == "__main__":
    Harness("C13", "integer-grid curves (equal heights, flat/vertical neighbours, rising and falling) and seeded random grids x all ascending knee "
            "subsets (<=5 knees for n<=7, samples otherwise) x t in {0,0.2,0.33,0.5,1} plus thresholds equal to an occurring IoU; oracle: the "
            "statement's rules in exact rational arithmetic", "n <= 12").main(run, replay)
