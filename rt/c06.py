"""C06 bounded layer: global RDP = first member of the fixed-size sequence whose global cost is acceptable."""
import numpy as np
import kneeliverse.rdp as rdp
import kneeliverse.metrics as metrics
import kneeliverse.evaluation as evaluation
from rt.common import Harness, family_curves
from rt.rdpfam import extra_curves, run_simplifier, accept, fixed_sequence, METRICS, ORDERS, DISTS


def gc(pts, S, c):
    return evaluation.compute_global_cost(pts, np.array(S), c)


def check(H, name, pts, seq, costs, t, d, c, o, ms):
    n = len(pts)
    inp = {"curve": name, "points": pts, "t": t, "distance": str(d), "cost": str(c), "order": str(o)}
    kstar = next((k for k in range(2, n + 1) if accept(c, costs[k], t)), n)
    status, res, _ = run_simplifier(rdp.grdp, pts.copy(), t, d, c, o)
    if status != "ok":
        H.violation("grdp(t=%r,%s,%s,%s) on %s: %s" % (t, d, c, o, name, res), inp, clause="completes")
        return
    got = [int(v) for v in res[0]]
    if got != seq[kstar]:
        H.violation("grdp(t=%r,%s,%s,%s) on %s returns %s; the first acceptable member of the fixed-size sequence is S_%d=%s" % (
            t, d, c, o, name, got, kstar, seq[kstar]), inp, clause="grdp")
        return
    for m in ms:
        status, res, _ = run_simplifier(rdp.mp_grdp, pts.copy(), t, m, d, c, o)
        if status != "ok":
            H.violation("mp_grdp(t=%r,m=%d) on %s: %s" % (t, m, name, res), inp, clause="completes")
            return
        got = [int(v) for v in res[0]]
        want = seq[max(kstar, min(max(m, 2), n))]
        if got != want:
            H.violation("mp_grdp(t=%r,min_points=%d,%s,%s,%s) on %s returns %s, expected S_max(k*,min(m,n))=%s (k*=%d)" % (
                t, m, d, c, o, name, got, want, kstar), dict(inp, m=m), clause="mp_grdp")
            return


def check_minpoint(H, name, pts, rng):
    n = len(pts)
    d, c, o = rdp.Distance.shortest, metrics.Metrics.smape, rdp.Order.segment
    for ts in ([0.01, 0.001, 0.0001], [0.0001, 0.5, 0.01], [0.9], [0.3, 0.05]):
        for m in sorted({0, 2, 3, n // 2, n, n + 2}):
            orig = list(ts)
            arg = list(ts)
            status, res, _ = run_simplifier(rdp.min_point_rdp, pts.copy(), arg, m)
            H.case((name, "min_point", tuple(ts), m))
            if status != "ok":
                H.violation("min_point_rdp(%s,%d) on %s: %s" % (ts, m, name, res), {"curve": name, "points": pts}, clause="completes")
                return
            got = [int(v) for v in res[0]]
            want = None
            for t in sorted(orig, reverse=True):
                r = [int(v) for v in rdp.grdp(pts.copy(), t=t)[0]]
                if len(r) >= m:
                    want = r
                    break
            if want is None:
                want = [int(v) for v in rdp.rdp_fixed(pts.copy(), m)[0]]
            if got != want:
                H.violation("min_point_rdp(t=%s, min_points=%d) on %s returns %s, expected %s" % (orig, m, name, got, want),
                            {"curve": name, "points": pts}, clause="min_point_rdp")
                return


def run(H, tier, rng):
    curves = family_curves(tier, rng, nmax=9 if tier == "quick" else 15) + extra_curves(rng)
    for name, pts in curves:
        n = len(pts)
        if tier == "quick" and n > 13 and not name.startswith("hyper"):
            continue
        for d in DISTS:
            for o in ORDERS:
                try:
                    seq = fixed_sequence(pts, d, o)
                except Exception:
                    H.note("fixed sequence not available (C05's concern)")
                    continue
                for c in METRICS:
                    costs = {k: gc(pts, seq[k], c) for k in seq}
                    vals = sorted({float(v) for v in costs.values() if np.isfinite(v) and v > 0})
                    ts = set(vals[:: max(1, len(vals) // (3 if tier == "quick" else 8))]) | ({0.9} if c is metrics.Metrics.r2 else {0.05})
                    ts = {t for t in ts if t > 0 and (c is not metrics.Metrics.r2 or t <= 1)}
                    for t in sorted(ts):
                        H.case((name, str(d), str(o), str(c), t), nontrivial=n > 3,
                               sample={"curve": name, "distance": str(d), "order": str(o), "cost": str(c), "t": t})
                        check(H, name, pts, seq, costs, t, d, c, o, sorted({0, 3, 6, n - 1, n + 3}))
                        if len(H.violations) >= 30:
                            return
        if n <= 13:
            check_minpoint(H, name, pts, rng)


if __name__ == "__main__":
    Harness("C06", "curve families (incl. exactly repeated bumps = ties in the ordering score, and a 40-point hyperbola) x 2 distances x 3 orderings "
            "x 5 metrics x thresholds taken from the actual global costs of the fixed-size sequence (boundary values) x min_points; oracle: the "
            "fixed-size sequence S_k from rdp_fixed and the global cost of each member evaluated with a fresh cache", "n <= 9 (+ extras up to 40) quick / 15 thorough").main(run)
