"""C20 linking clause (static, exhaustive over all code paths): every Name load, every attribute of an imported module and every
intra-package call signature resolves.  Pure AST analysis of <repo>/src/kneeliverse + introspection of the installed dependencies.
Each resolved reference is one discharged obligation; an unresolved one is a failed obligation with its source location."""
import ast, builtins, importlib, inspect, os, sys

PKG = "kneeliverse"


def analyse(src_dir):
    obligations = []       # (kind, where, text, ok, detail)
    mods = {}
    for f in sorted(os.listdir(src_dir)):
        if f.endswith(".py"):
            mods[f[:-3]] = ast.parse(open(os.path.join(src_dir, f)).read(), filename=f)
    # module-level symbol tables
    table = {}
    for m, tree in mods.items():
        g = {}
        for n in tree.body:
            if isinstance(n, (ast.FunctionDef, ast.ClassDef)):
                g[n.name] = n
            elif isinstance(n, ast.Import):
                for a in n.names:
                    g[a.asname or a.name.split(".")[0]] = ("module", a.name if a.asname else a.name.split(".")[0])
            elif isinstance(n, ast.ImportFrom):
                for a in n.names:
                    g[a.asname or a.name] = ("from", n.module, a.name)
            elif isinstance(n, ast.Assign):
                for t in n.targets:
                    for nm in ast.walk(t):
                        if isinstance(nm, ast.Name):
                            g[nm.id] = ("global", None)
        table[m] = g

    def resolve_module_attr(modname, attrs):
        """does importlib.import_module(modname).a.b.c exist?  package modules are checked against the AST tables"""
        if modname == PKG or modname.startswith(PKG + "."):
            parts = modname.split(".")[1:] + list(attrs)
            if not parts:
                return True, None
            if parts[0] not in table:
                return False, "no module %s.%s" % (PKG, parts[0])
            if len(parts) == 1:
                return True, None
            sym = table[parts[0]].get(parts[1])
            if sym is None:
                return False, "%s.%s has no attribute %s" % (PKG, parts[0], parts[1])
            if isinstance(sym, ast.ClassDef) and len(parts) > 2:
                members = {t.id for b in sym.body if isinstance(b, ast.Assign) for t in b.targets if isinstance(t, ast.Name)}
                members |= {b.name for b in sym.body if isinstance(b, ast.FunctionDef)}
                if parts[2] not in members and parts[2] not in ("value", "name"):
                    return False, "enum %s has no member %s" % (parts[1], parts[2])
            return True, sym
        try:
            obj = importlib.import_module(modname)
        except Exception as e:
            return False, "cannot import %s: %s" % (modname, e)
        for a in attrs:
            if not hasattr(obj, a):
                return False, "%s has no attribute %s" % (getattr(obj, "__name__", obj), a)
            obj = getattr(obj, a)
            if not inspect.ismodule(obj) and not inspect.isclass(obj) and not callable(obj) and not isinstance(obj, type(importlib)):
                break       # attributes of values (arrays, floats) are not linked statically
        return True, obj

    def attr_chain(e):
        parts = []
        while isinstance(e, ast.Attribute):
            parts.append(e.attr)
            e = e.value
        if isinstance(e, ast.Name):
            return e.id, list(reversed(parts))
        return None, None

    def check_signature(fdef, call, where, label):
        pos = [a.arg for a in fdef.args.posonlyargs + fdef.args.args]
        nd = len(fdef.args.defaults)
        required = pos[:len(pos) - nd] if nd else pos
        if any(isinstance(a, ast.Starred) for a in call.args) or any(k.arg is None for k in call.keywords):
            return
        given = set(pos[:len(call.args)])
        ok, detail = True, None
        if len(call.args) > len(pos) and fdef.args.vararg is None:
            ok, detail = False, "%d positional arguments for %d parameters" % (len(call.args), len(pos))
        for k in call.keywords:
            if k.arg not in pos and k.arg not in [a.arg for a in fdef.args.kwonlyargs] and fdef.args.kwarg is None:
                ok, detail = False, "unexpected keyword %s" % k.arg
            if k.arg in given:
                ok, detail = False, "multiple values for %s" % k.arg
            given.add(k.arg)
        missing = [p for p in required if p not in given]
        if ok and missing:
            ok, detail = False, "missing arguments %s" % missing
        obligations.append(("call-signature", where, label, ok, detail))

    for m, tree in mods.items():
        g = table[m]

        class V(ast.NodeVisitor):
            def __init__(self):
                self.scopes = []

            def fn(self):
                for n, _ in reversed(self.scopes):
                    if isinstance(n, ast.FunctionDef):
                        return n.name
                return "<module>"

            def visit_FunctionDef(self, n):
                loc = set(a.arg for a in n.args.posonlyargs + n.args.args + n.args.kwonlyargs)
                if n.args.vararg:
                    loc.add(n.args.vararg.arg)
                if n.args.kwarg:
                    loc.add(n.args.kwarg.arg)
                for d in n.args.defaults + n.args.kw_defaults:
                    if d is not None:
                        self.visit(d)
                for c in ast.walk(n):
                    if isinstance(c, ast.Name) and isinstance(c.ctx, (ast.Store, ast.Del)):
                        loc.add(c.id)
                    elif isinstance(c, (ast.FunctionDef, ast.ClassDef)) and c is not n:
                        loc.add(c.name)
                    elif isinstance(c, (ast.Import, ast.ImportFrom)):
                        for a in c.names:
                            loc.add((a.asname or a.name).split(".")[0])
                    elif isinstance(c, ast.ExceptHandler) and c.name:
                        loc.add(c.name)
                self.scopes.append((n, loc))
                for s in n.body:
                    self.visit(s)
                self.scopes.pop()

            def visit_Lambda(self, n):
                self.scopes.append((n, set(a.arg for a in n.args.args)))
                self.visit(n.body)
                self.scopes.pop()

            def comp(self, n):
                loc = set()
                for gen in n.generators:
                    for c in ast.walk(gen.target):
                        if isinstance(c, ast.Name):
                            loc.add(c.id)
                self.scopes.append((n, loc))
                self.generic_visit(n)
                self.scopes.pop()
            visit_ListComp = visit_SetComp = visit_DictComp = visit_GeneratorExp = comp

            def is_local(self, name):
                return any(name in loc for _, loc in self.scopes)

            def visit_Name(self, n):
                if not isinstance(n.ctx, ast.Load):
                    return
                where = "%s.py:%s:%d" % (m, self.fn(), n.lineno)
                ok = self.is_local(n.id) or n.id in g or hasattr(builtins, n.id)
                obligations.append(("name", where, n.id, ok, None if ok else "name %r is not defined in any enclosing scope, the module or builtins" % n.id))

            def visit_Attribute(self, n):
                base, parts = attr_chain(n)
                where = "%s.py:%s:%d" % (m, self.fn(), n.lineno)
                if base is not None and not self.is_local(base) and base in g and isinstance(g[base], tuple) and g[base][0] in ("module", "from"):
                    if g[base][0] == "module":
                        ok, detail = resolve_module_attr(g[base][1], parts)
                    else:
                        ok, detail = resolve_module_attr(g[base][1], [g[base][2]] + parts)
                    obligations.append(("module-attribute", where, "%s.%s" % (base, ".".join(parts)), ok, None if ok else detail))
                    self.visit(n.value) if False else None
                    return
                self.generic_visit(n)

            def visit_Call(self, n):
                where = "%s.py:%s:%d" % (m, self.fn(), n.lineno)
                f = n.func
                if isinstance(f, ast.Name) and not self.is_local(f.id) and isinstance(g.get(f.id), ast.FunctionDef):
                    check_signature(g[f.id], n, where, f.id)
                elif isinstance(f, ast.Attribute):
                    base, parts = attr_chain(f)
                    if base is not None and not self.is_local(base) and isinstance(g.get(base), tuple) and g[base][0] == "module" and g[base][1].startswith(PKG):
                        ok, sym = resolve_module_attr(g[base][1], parts)
                        if ok and isinstance(sym, ast.FunctionDef):
                            check_signature(sym, n, where, "%s.%s" % (base, ".".join(parts)))
                self.generic_visit(n)
        V().visit(tree)
    return obligations


if __name__ == "__main__":
    import json
    repo = os.environ.get("KVC_REPO", "/repo")
    obl = analyse(os.path.join(repo, "src", PKG))
    bad = [o for o in obl if not o[3]]
    print(json.dumps({"obligations": len(obl), "failed": [list(map(str, o)) for o in bad]}, indent=1))
