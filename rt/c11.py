"""C11 bounded layer: the four linkages against the stated rule evaluated in exact rational arithmetic."""
import itertools
from fractions import Fraction as F
import numpy as np
import kneeliverse.clustering as cl
from rt.common import Harness, curve

LINK = {"single": cl.single_linkage, "complete": cl.complete_linkage, "centroid": cl.centroid_linkage,
        "average": cl.average_linkage}


def oracle(kind, xs, t):
    """labels by the statement; returns (labels, min |dist - t|) ; distances exact"""
    L = F(xs[-1]) - F(xs[0])
    lab = [0]
    start = 0
    margin = None
    for i in range(1, len(xs)):
        run = [F(v) for v in xs[start:i]]
        xi = F(xs[i])
        if kind == "single":
            d = abs(xi - F(xs[i - 1]))
        elif kind == "complete":
            d = abs(xi - run[0])
        elif kind == "centroid":
            d = abs(xi - sum(run) / len(run))
        else:
            d = sum(abs(xi - v) for v in run) / len(run)
        d = d / L
        m = abs(d - t)
        margin = m if margin is None else min(margin, m)
        if d >= t:
            lab.append(lab[-1] + 1)
            start = i
        else:
            lab.append(lab[-1])
    return lab, margin


def check(H, kind, xs, t, exact_ties):
    pts = curve(xs, [1.0] * len(xs))
    got = LINK[kind](pts, float(t))
    want, margin = oracle(kind, xs, t)
    if margin is not None and margin != 0 and margin < F(1, 10 ** 9):
        H.note("skipped: within 1e-9 of a tie (rounding could legitimately decide either way)")
        return
    if margin == 0 and not exact_ties:
        H.note("skipped: exact tie where the floating-point evaluation is not exact")
        return
    ok = len(got) == len(xs) and list(map(int, got)) == want
    if not ok:
        H.violation("%s_linkage(x=%s, t=%s) = %s, rule gives %s" % (kind, list(xs), t, np.asarray(got).tolist(), want),
                    {"kind": kind, "xs": list(xs), "t": [t.numerator, t.denominator], "exact_ties": exact_ties}, clause="rule")


def replay(inp):
    H = Harness("C11", "", "")
    check(H, inp["kind"], inp["xs"], F(inp["t"][0], inp["t"][1]), inp["exact_ties"])
    return H.violations[0]["what"] if H.violations else None


def run(H, tier, rng):
    top = 8
    ts = [F(k, 16) for k in range(1, 17)] + [F(3, 2)]
    inner = list(range(1, top))
    for r in range(0, len(inner) + 1):
        for c in itertools.combinations(inner, r):
            xs = [0] + list(c) + [top]
            for t in ts:
                for kind in LINK:
                    # single/complete: integer differences over a power-of-two range are exact in binary floating point
                    H.case((kind, tuple(xs), t), nontrivial=len(xs) > 2, sample={"kind": kind, "x": xs, "t": str(t)})
                    check(H, kind, xs, t, exact_ties=kind in ("single", "complete"))
    H.exhaustive = True
    # monotonicity of the cluster count in t (single, complete) on the same grid + random real-valued inputs
    for r in range(0, len(inner) + 1):
        for c in itertools.combinations(inner, r):
            xs = [0] + list(c) + [top]
            pts = curve(xs, [0.0] * len(xs))
            for kind in ("single", "complete"):
                counts = [int(LINK[kind](pts, float(t))[-1]) + 1 for t in ts]
                H.case((kind, "mono", tuple(xs)), nontrivial=len(xs) > 2)
                if any(counts[i] < counts[i + 1] for i in range(len(counts) - 1)):
                    H.violation("%s_linkage cluster count not monotone in t on x=%s: %s" % (kind, xs, counts),
                                {"kind": kind, "xs": xs, "t": [1, 1], "exact_ties": True}, clause="monotone")
    n_rand = 300 if tier == "quick" else 5000
    for _ in range(n_rand):
        n = rng.randint(2, 12)
        xs = sorted(rng.sample(range(0, 4000), n))
        xs = [v / 7.0 for v in xs]
        t = F(rng.randint(1, 400), 1000)
        for kind in LINK:
            H.case((kind, tuple(xs), t))
            check(H, kind, xs, t, exact_ties=False)


if __name__ == "__main__":
    Harness("C11", "all strictly increasing integer x sequences inside 0..8 with both ends (128) x t in {1/16..16/16, 3/2} x 4 linkages, "
            "oracle = the statement's rule in exact rational arithmetic (exact ties included for single/complete, where the doubles are "
            "exact); cluster-count monotonicity on the same grid; seeded random real-valued inputs away from ties",
            "x range 0..8, n <= 9; random n <= 12").main(run, replay)
