"""C11 bounded layer: the four linkages against the stated rule evaluated in exact rational arithmetic."""
import itertools
from fractions import Fraction as F
import numpy as np
import kneeliverse.clustering as cl
from rt.common import Harness, curve

LINK = {"single": cl.single_linkage, "complete": cl.complete_linkage, "centroid": cl.centroid_linkage,
        "average": cl.average_linkage}


def _pow2(q):
    d = F(q).denominator
    return d & (d - 1) == 0


def oracle(kind, xs, t):
    """labels by the statement, distances in exact rationals.  Returns (labels, verdict): verdict is None when every comparison is
    decided reliably in doubles, else the reason the case is skipped.  A comparison is reliable when it is at least 1e-9 away from
    the threshold, or an *exact tie whose floating-point evaluation is exact*: integer x over a power-of-two range and
    - single / complete: always (one difference, one division by a power of two);
    - centroid: the current cluster has at most 2 members (the running centre is then a sum of two halves);
    - average: the mean distance divided by the range has a power-of-two denominator (one correctly rounded division of exact integers)."""
    L = F(xs[-1]) - F(xs[0])
    ints = all(float(v).is_integer() for v in xs) and _pow2(F(1) / L) and _pow2(t)
    lab = [0]
    start = 0
    verdict = None
    for i in range(1, len(xs)):
        run = [F(v) for v in xs[start:i]]
        xi = F(xs[i])
        if kind == "single":
            d, exact = abs(xi - F(xs[i - 1])), ints
        elif kind == "complete":
            d, exact = abs(xi - run[0]), ints
        elif kind == "centroid":
            d, exact = abs(xi - sum(run) / len(run)), ints and len(run) <= 2
        else:
            d = sum(abs(xi - v) for v in run) / len(run)
            exact = ints and _pow2(d / L)
        d = d / L
        m = abs(d - t)
        if m == 0 and not exact:
            verdict = verdict or "exact tie where the floating-point evaluation is not exact"
        elif 0 < m < F(1, 10 ** 9):
            verdict = verdict or "within 1e-9 of a tie (rounding could legitimately decide either way)"
        if d >= t:
            lab.append(lab[-1] + 1)
            start = i
        else:
            lab.append(lab[-1])
    return lab, verdict


def check(H, kind, xs, t, exact_ties=None):
    pts = curve(xs, [1.0] * len(xs))
    got = LINK[kind](pts, float(t))
    want, verdict = oracle(kind, xs, t)
    if verdict is not None:
        H.note("skipped: " + verdict)
        return
    ok = len(got) == len(xs) and list(map(int, got)) == want
    if not ok:
        H.violation("%s_linkage(x=%s, t=%s) = %s, rule gives %s" % (kind, list(xs), t, np.asarray(got).tolist(), want),
                    {"kind": kind, "xs": list(xs), "t": [t.numerator, t.denominator], "exact_ties": True}, clause="rule")


def replay(inp):
    H = Harness("C11", "", "")
    check(H, inp["kind"], inp["xs"], F(inp["t"][0], inp["t"][1]), inp["exact_ties"])
    return H.violations[0]["what"] if H.violations else None


def run(H, tier, rng):
    top = 8
    ts = [F(k, 16) for k in range(1, 17)] + [F(3, 2)]
    inner = list(range(1, top))
    for r in range(0, len(inner) + 1):
        for c in itertools.combinations(inner, r):
            xs = [0] + list(c) + [top]
            for t in ts:
                for kind in LINK:
                    # single/complete: integer differences over a power-of-two range are exact in binary floating point
                    H.case((kind, tuple(xs), t), nontrivial=len(xs) > 2, sample={"kind": kind, "x": xs, "t": str(t)})
                    check(H, kind, xs, t, exact_ties=kind in ("single", "complete"))
    H.exhaustive = True
    # monotonicity of the cluster count in t (single, complete) on the same grid + random real-valued inputs
    for r in range(0, len(inner) + 1):
        for c in itertools.combinations(inner, r):
            xs = [0] + list(c) + [top]
            pts = curve(xs, [0.0] * len(xs))
            for kind in ("single", "complete"):
                counts = [int(LINK[kind](pts, float(t))[-1]) + 1 for t in ts]
                H.case((kind, "mono", tuple(xs)), nontrivial=len(xs) > 2)
                if any(counts[i] < counts[i + 1] for i in range(len(counts) - 1)):
                    H.violation("%s_linkage cluster count not monotone in t on x=%s: %s" % (kind, xs, counts),
                                {"kind": kind, "xs": xs, "t": [1, 1], "exact_ties": True}, clause="monotone")
    n_rand = 300 if tier == "quick" else 5000
    for _ in range(n_rand):
        n = rng.randint(2, 12)
        xs = sorted(rng.sample(range(0, 4000), n))
        xs = [v / 7.0 for v in xs]
        t = F(rng.randint(1, 400), 1000)
        for kind in LINK:
            H.case((kind, tuple(xs), t))
            check(H, kind, xs, t, exact_ties=False)


if __name__ == "__main__":
    Harness("C11", "all strictly increasing integer x sequences inside 0..8 with both ends (128) x t in {1/16..16/16, 3/2} x 4 linkages, "
            "oracle = the statement's rule in exact rational arithmetic (exact ties included wherever the evaluation in doubles is "
            "exact: always for single/complete, for centroid while the cluster has <= 2 members, for average when the mean distance is dyadic); cluster-count monotonicity on the same grid; seeded random real-valued inputs away from ties",
            "x range 0..8, n <= 9; random n <= 12").main(run, replay)
