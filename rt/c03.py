"""C03 bounded layer: every single-knee detector returns the corner of an exact two-slope elbow."""
import itertools, warnings
import numpy as np
import kneeliverse.curvature as curvature
import kneeliverse.dfdt as dfdt
import kneeliverse.menger as menger
import kneeliverse.lmethod as lm
import kneeliverse.kneedle as kneedle
from rt.common import Harness, guarded, Timeout

warnings.filterwarnings("ignore")


def elbow(left, right, m1, m2, x0=0.0, yc=0.0):
    """left/right: lists of integer spacings; slopes m1, m2 (multiples of 1/8); returns (points, corner index)"""
    xs = [x0]
    for s in left + right:
        xs.append(xs[-1] + s)
    c = len(left)
    xc = xs[c]
    ys = [yc + (m1 if i <= c else m2) * (x - xc) for i, x in enumerate(xs)]
    return np.column_stack((np.array(xs, dtype=float), np.array(ys, dtype=float))), c


def detectors(monotone):
    d = [("curvature", lambda P: curvature.knee(P)), ("dfdt", lambda P: dfdt.knee(P)), ("menger", lambda P: menger.knee(P))]
    for fit in lm.Fit:
        for cost in lm.Cost:
            d.append(("lmethod.get_knee[%s,%s]" % (fit, cost), lambda P, fit=fit, cost=cost: lm.get_knee(P[:, 0], P[:, 1], fit, cost)[0]))
        for it in lm.Refinement:
            d.append(("lmethod.knee[%s,%s]" % (fit, it), lambda P, fit=fit, it=it: lm.knee(P, fit, it)))
    if monotone:
        d.append(("kneedle[t=0]", lambda P: kneedle.knee(P, 0.0)))
    return d


def check(H, left, right, j1, j2, off, only=None):
    m1, m2 = j1 / 8.0, j2 / 8.0
    P, c = elbow(left, right, m1, m2, 0.0, off)
    monotone = (m1 > 0 and m2 > 0) or (m1 < 0 and m2 < 0) or (m1 == 0) != (m2 == 0) and m1 * m2 == 0 and (m1 + m2 != 0)
    monotone = (m1 >= 0 and m2 >= 0) or (m1 <= 0 and m2 <= 0)
    inp = {"left": left, "right": right, "m1": m1, "m2": m2, "offset": off}
    for name, f in detectors(monotone):
        if only is not None and not name.startswith(only):
            continue
        H.case((tuple(left), tuple(right), j1, j2, off, name), sample=dict(inp, detector=name, corner=c))
        try:
            got = guarded(f, P.copy(), limit=30)
        except Timeout:
            H.violation("%s does not return on elbow %s" % (name, inp), dict(inp, detector=name), clause="termination")
            continue
        except Exception as e:
            H.violation("%s raised %s on elbow %s: %s" % (name, type(e).__name__, inp, str(e)[:80]), dict(inp, detector=name), clause="completes")
            continue
        if got is None or int(got) != c:
            H.violation("%s returns %s on the two-slope elbow left=%s right=%s slopes %s -> %s offset %s; the corner is index %d" % (name, got, left, right, m1, m2, off, c),
                        dict(inp, detector=name), witness_id="elbow:" + name.split("[")[0], clause=name)


def run(H, tier, rng):
    slopes = [j for j in range(-64, 65, 8)] + [-1, 1, -3, 5, -20, 36]
    pairs = [(a, b) for a in slopes for b in slopes if a != b]
    n_cases = 60 if tier == "quick" else 1500
    # systematic: short arms, all spacing patterns over {1,2,3,4} of length 3
    pats = list(itertools.product([1, 2, 3, 4], repeat=3))
    for k in range(n_cases):
        la, ra = rng.choice([3, 3, 4, 5, 8, 12]), rng.choice([3, 3, 4, 5, 8])
        left = [rng.choice([1, 2, 3, 4]) for _ in range(la)] if la > 3 else list(rng.choice(pats))
        right = [rng.choice([1, 2, 3, 4]) for _ in range(ra)] if ra > 3 else list(rng.choice(pats))
        j1, j2 = rng.choice(pairs)
        off = rng.choice([0.0, 0.125, 4096.0, 100.0])
        check(H, left, right, j1, j2, off)
        if len(H.violations) >= 60:
            break
    # corner sweep: the corner geometry (the two spacings next to the corner and the two slopes) decides the Menger detector; nearly
    # parallel steep arms with wide spacing give the smallest corner curvature of the family (~6e-5), so this stratum is enumerated:
    # quick = every ordered slope pair with |j1 - j2| <= 2 (j in -64..64), thorough = every ordered pair; all 16 corner spacings
    allj = range(-64, 65)
    sweep = [(a, b) for a in allj for b in allj if a != b and (tier != "quick" or abs(a - b) <= 2)]
    for a, b in sweep:
        for dl in (1, 2, 3, 4):
            for dr in (1, 2, 3, 4):
                check(H, [1, 2, dl], [dr, 3, 1], a, b, 0.0, only="menger")
        if len(H.violations) >= 60:
            break
    # the same stratum for every other detector, sampled
    near = [(a, b) for a, b in sweep if abs(a - b) <= 2]
    for k in range(40 if tier == "quick" else 400):
        a, b = near[rng.randrange(len(near))] if hasattr(rng, "randrange") else near[int(rng.random() * len(near))]
        check(H, [1, 2, rng.choice([1, 2, 3, 4])], [rng.choice([1, 2, 3, 4]), 3, 1], a, b, rng.choice([0.0, 0.125]))
        if len(H.violations) >= 60:
            break
    check(H, [2, 3, 1], [3, 2, 1], -64, -16, 0.0)
    check(H, [1] * 12, [1, 1, 1], -16, -1, 100.0)


if __name__ == "__main__":
    Harness("C03", "seeded random two-slope elbows: arms of 3..12 segments, spacings in {1,2,3,4} (all 64 patterns for 3-segment arms), ordered pairs "
            "of distinct slopes from a lattice of multiples of 1/8 in [-8,8], dyadic offsets {0, 1/8, 100, 4096}; every detector and option; "
            "Kneedle(t=0) on monotone elbows; plus the corner sweep for the Menger detector (every ordered slope pair j1/8, j2/8 with |j1-j2| <= 2 in "
            "the quick tier, every ordered pair in the thorough tier, all 16 corner spacings) and a sample of that nearly-parallel stratum for all "
            "detectors; expected answer: the corner index, exactly", "arms <= 12 segments").main(run)
