"""C05 bounded layer: fixed-size RDP is an exact-size, nested, greedy refinement (chain k = 2..n+1)."""
import numpy as np
import kneeliverse.rdp as rdp
from rt.common import Harness, family_curves
from rt.rdpfam import extra_curves, run_simplifier, score, DIST, ORDERS, DISTS, EPS


def check_chain(H, name, pts, d, o):
    n = len(pts)
    inp = {"curve": name, "points": pts, "distance": str(d), "order": str(o)}
    prev = None
    for k in list(range(0, n + 2)):
        status, res, _ = run_simplifier(rdp.rdp_fixed, pts.copy(), k, d, o)
        if status != "ok":
            H.violation("rdp_fixed(k=%d,%s,%s) on %s: %s" % (k, d, o, name, res), inp, clause="completes")
            return
        red = [int(v) for v in res[0]]
        want = min(max(k, 2), n)
        if len(red) != want or len(set(red)) != len(red) or red != sorted(red) or red[0] != 0 or red[-1] != n - 1:
            H.violation("rdp_fixed(k=%d,%s,%s) on %s returns %s: expected exactly %d distinct ascending indices from 0 to %d" % (
                k, d, o, name, red, want, n - 1), inp, clause="N")
            return
        if prev is not None and k >= 3 and len(red) == len(prev) + 1:
            if not set(prev) <= set(red):
                H.violation("rdp_fixed on %s (%s,%s): S_%d=%s is not nested in S_%d=%s" % (name, d, o, k - 1, prev, k, red), inp, clause="H")
                return
            g = (set(red) - set(prev)).pop()
            # the retained segment of S_{k-1} that contains g
            j = max(i for i in range(len(prev)) if prev[i] < g)
            l, r = prev[j], prev[j + 1] + 1
            if not (l < g < r - 1):
                H.violation("gained index %d is not strictly inside a retained segment of %s" % (g, prev), inp, clause="G")
                return
            pt = pts[l:r]
            dd = DIST[d](pt, pt[0], pt[-1])
            inner = dd[1:-1]
            tol = 4 * EPS * max(1.0, float(np.max(np.abs(pts))))
            if not (dd[g - l] >= inner.max() - tol or np.all(dd < EPS)):
                H.violation("rdp_fixed on %s (%s,%s): gained index %d of segment [%d,%d] has distance %r but an interior point has %r" % (
                    name, d, o, g, l, r - 1, float(dd[g - l]), float(inner.max())), inp, clause="G-argmax")
                return
            mine = score(pts, l, r, d, o)
            for i in range(len(prev) - 1):
                l2, r2 = prev[i], prev[i + 1] + 1
                if r2 - l2 > 2:
                    s2 = score(pts, l2, r2, d, o)
                    if s2 > mine and len(prev) > 2:
                        H.violation("rdp_fixed on %s (%s,%s): k=%d refines segment [%d,%d] with ordering score %r although [%d,%d] scores %r" % (
                            name, d, o, k, l, r - 1, float(mine), l2, r2 - 1, float(s2)), inp, clause="G-score")
                        return
        prev = red
    # history clause: the same array object modified in place between calls must give the result of a fresh array
    a = pts.copy()
    rdp.rdp_fixed(a, min(4, n), d, o)
    a[:, 1] *= 1000.0
    r1 = rdp.rdp_fixed(a, min(5, n), d, o)[0]
    r2 = rdp.rdp_fixed(a.copy(), min(5, n), d, o)[0]
    if list(r1) != list(r2):
        H.violation("rdp_fixed on %s (%s,%s) depends on earlier calls: %s after an in-place rescale vs %s on a fresh copy" % (
            name, d, o, list(r1), list(r2)), inp, clause="history")


def replay(inp):
    H = Harness("C05", "", "")
    d = [x for x in DISTS if str(x) == inp["distance"]][0]
    o = [x for x in ORDERS if str(x) == inp["order"]][0]
    check_chain(H, inp["curve"], np.array(inp["points"], dtype=float), d, o)
    return H.violations[0]["what"] if H.violations else None


def run(H, tier, rng):
    curves = family_curves(tier, rng, nmax=12 if tier == "quick" else 20) + extra_curves(rng)
    for name, pts in curves:
        if tier == "quick" and len(pts) > 13:
            continue
        for d in DISTS:
            for o in ORDERS:
                H.case((name, str(d), str(o)), nontrivial=len(pts) > 3, sample={"curve": name, "distance": str(d), "order": str(o), "chain": "k=0..n+1"})
                check_chain(H, name, pts, d, o)
                if len(H.violations) >= 30:
                    return


if __name__ == "__main__":
    Harness("C05", "curve families x 2 distances x 3 orderings, the whole chain k = 0..n+1 per case: size, nesting, the gained index is an "
            "interior arg-max (to 4 ulp of the coordinate scale) of a retained segment with maximal ordering score (scores recomputed "
            "from the library's primitives on the segment alone); plus an in-place-mutation history check", "n <= 13 quick / 20 thorough (+ curves of 30/40 thorough)").main(run, replay)
