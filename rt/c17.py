"""C17 bounded layer: geometric and ranking primitives against their definitions evaluated exactly (rationals + correctly rounded sqrt)."""
import itertools, math
from fractions import Fraction as F
import numpy as np
import kneeliverse.linear_fit as lf
import kneeliverse.knee_ranking as kr
import kneeliverse.menger as menger
import kneeliverse.postprocessing as pp
from rt.common import Harness


def fsqrt(q):
    return math.sqrt(q) if q < 10 ** 300 else float("inf")


def close(a, b, rel=1e-9, ab=1e-12):
    return abs(a - b) <= ab + rel * max(abs(a), abs(b))


def seg_dist2(p, a, b):
    """squared distance of p to the closed segment a-b, exact"""
    px, py, ax, ay, bx, by = map(F, (p[0], p[1], a[0], a[1], b[0], b[1]))
    dx, dy = bx - ax, by - ay
    L2 = dx * dx + dy * dy
    if L2 == 0:
        return (px - ax) ** 2 + (py - ay) ** 2
    u = ((px - ax) * dx + (py - ay) * dy) / L2
    u = max(F(0), min(F(1), u))
    qx, qy = ax + u * dx, ay + u * dy
    return (px - qx) ** 2 + (py - qy) ** 2


def line_dist2(p, a, b):
    px, py, ax, ay, bx, by = map(F, (p[0], p[1], a[0], a[1], b[0], b[1]))
    dx, dy = bx - ax, by - ay
    cr = dx * (py - ay) - dy * (px - ax)
    return cr * cr / (dx * dx + dy * dy)


def check_distances(H, pts, a, b, tag):
    P = np.array(pts, dtype=float)
    A, B = np.array(a, dtype=float), np.array(b, dtype=float)
    inp = {"points": pts, "a": a, "b": b}
    H.case(("dist", tag, tuple(map(tuple, pts)), tuple(a), tuple(b)), sample=inp)
    before = P.copy()
    got = lf.shortest_distance_points(P, A, B)
    want = [fsqrt(seg_dist2(p, a, b)) for p in pts]
    if len(got) != len(pts) or not all(close(g, w) for g, w in zip(got, want)):
        H.violation("shortest_distance_points(%s, a=%s, b=%s) = %s, distance to the closed segment is %s" % (pts, a, b, np.asarray(got).tolist(), want), inp, clause="shortest")
    if tuple(a) != tuple(b):
        got = lf.perpendicular_distance_points(P, A, B)
        want = [fsqrt(line_dist2(p, a, b)) for p in pts]
        if len(got) != len(pts) or not all(close(g, w) for g, w in zip(got, want)):
            H.violation("perpendicular_distance_points(%s, %s, %s) = %s, distance to the line is %s" % (pts, a, b, np.asarray(got).tolist(), want), inp, clause="perpendicular")
    if not np.array_equal(before, P):
        H.violation("distance primitive modified its input", inp, clause="frame")


def check_index(H, pts, l, r):
    P = np.array(pts, dtype=float)
    if tuple(pts[l]) == tuple(pts[r]):
        return
    H.case(("pdi", tuple(map(tuple, pts)), l, r))
    got = lf.perpendicular_distance_index(P, l, r)
    want = [fsqrt(line_dist2(p, pts[l], pts[r])) for p in pts[l:r + 1]]
    if len(got) != len(want) or not all(close(g, w) for g, w in zip(got, want)):
        H.violation("perpendicular_distance_index(%s, %d, %d) = %s, distances of that sub-range to its chord line are %s" % (pts, l, r, np.asarray(got).tolist(), want),
                    {"points": pts, "left": l, "right": r}, clause="perpendicular-index")
    if l == 0 and r == len(pts) - 1:
        g2 = lf.perpendicular_distance(P)
        if len(g2) != len(want) or not all(close(g, w) for g, w in zip(g2, want)):
            H.violation("perpendicular_distance(%s) = %s, expected %s" % (pts, np.asarray(g2).tolist(), want), {"points": pts}, clause="perpendicular-all")


def iou_exact(amin, amax, bmin, bmax):
    amin, amax, bmin, bmax = [tuple(map(F, v)) for v in (amin, amax, bmin, bmax)]
    dx = max(F(0), min(amax[0], bmax[0]) - max(amin[0], bmin[0]))
    dy = max(F(0), min(amax[1], bmax[1]) - max(amin[1], bmin[1]))
    inter = dx * dy
    if inter <= 0:
        return F(0)
    return inter / ((amax[0] - amin[0]) * (amax[1] - amin[1]) + (bmax[0] - bmin[0]) * (bmax[1] - bmin[1]) - inter)


def check_rect(H, p1, p2, q1, q2):
    H.case(("rect", p1, p2, q1, q2))
    amin, amax = kr.rect(np.array(p1, dtype=float), np.array(p2, dtype=float))
    bmin, bmax = kr.rect(np.array(q1, dtype=float), np.array(q2, dtype=float))
    wa = ([min(p1[0], p2[0]), min(p1[1], p2[1])], [max(p1[0], p2[0]), max(p1[1], p2[1])])
    inp = {"p1": p1, "p2": p2, "q1": q1, "q2": q2}
    if list(amin) != wa[0] or list(amax) != wa[1]:
        H.violation("rect(%s,%s) = %s,%s" % (p1, p2, list(amin), list(amax)), inp, clause="rect")
        return
    v = kr.rect_overlap(amin, amax, bmin, bmax)
    w = kr.rect_overlap(bmin, bmax, amin, amax)
    e = iou_exact(amin, amax, bmin, bmax)
    if not close(v, float(e)) or not close(w, float(e)) or not (0.0 <= v <= 1.0 + 1e-12):
        H.violation("rect_overlap(%s,%s ; %s,%s) = %r / swapped %r, intersection-over-union is %s" % (list(amin), list(amax), list(bmin), list(bmax), v, w, e), inp, clause="iou")


def circum_curv(f, g, h):
    (x1, y1), (x2, y2), (x3, y3) = [tuple(map(F, p)) for p in (f, g, h)]
    cross = (x2 - x1) * (y3 - y1) - (y2 - y1) * (x3 - x1)
    a2 = (x2 - x1) ** 2 + (y2 - y1) ** 2
    b2 = (x3 - x2) ** 2 + (y3 - y2) ** 2
    c2 = (x1 - x3) ** 2 + (y1 - y3) ** 2
    if a2 * b2 * c2 == 0:
        return None
    return 2 * abs(float(cross)) / math.sqrt(a2 * b2 * c2)


def check_menger(H, tri):
    H.case(("menger", tri))
    want = circum_curv(*tri)
    if want is None:
        return
    vals = []
    for perm in itertools.permutations(tri):
        vals.append(menger.menger_curvature(*[np.array(p, dtype=float) for p in perm]))
    if not all(close(v, want) for v in vals):
        H.violation("menger_curvature over the 6 argument orders of %s = %s, reciprocal circumradius is %r" % (tri, vals, want), {"triple": tri}, clause="menger")


def check_rank(H, arr):
    H.case(("rank", tuple(arr)))
    a = np.array(arr, dtype=float)
    b = a.copy()
    r = kr.rank(a)
    n = len(arr)
    ok = sorted(int(v) for v in r) == list(range(n)) and all(r[i] < r[j] for i in range(n) for j in range(n) if arr[i] < arr[j])
    if not ok or not np.array_equal(a, b):
        H.violation("rank(%s) = %s is not the permutation of 0..n-1 that orders the values" % (arr, np.asarray(r).tolist()), {"array": arr}, clause="rank")


def run(H, tier, rng):
    g = [-2, 0, 1, 3]
    grid = [(x, y) for x in g for y in g]
    segs = [((0, 0), (3, 0)), ((0, 0), (0, 0)), ((1, 1), (3, 3)), ((-2, 3), (3, -2)), ((0, 1), (0, 3)), ((1000000, 0.5), (1000004, 0.5)),
            ((0, 0), (1e-6, 0)), ((1e6, 1e6), (1e6 + 1, 1e6 + 2))]
    for a, b in segs:
        pts = [list(p) for p in grid] if abs(a[0]) < 100 else [[a[0] - 1, 0.5], [a[0], 1.5], [a[0] + 2, -0.5], [b[0], 0.5], [b[0] + 2, 0.5], [a[0] + 1, a[1]]]
        check_distances(H, pts, list(a), list(b), "grid")
    n_r = 200 if tier == "quick" else 3000
    for _ in range(n_r):
        k = rng.randint(1, 6)
        pts = [[rng.randint(-5, 5), rng.randint(-5, 5)] for _ in range(k)]
        a = [rng.randint(-5, 5), rng.randint(-5, 5)]
        b = a if rng.random() < 0.15 else [rng.randint(-5, 5), rng.randint(-5, 5)]
        check_distances(H, pts, a, b, "rand")
    # sub-range distances on x-sorted curves
    for _ in range(60 if tier == "quick" else 600):
        n = rng.randint(3, 8)
        xs = sorted(rng.sample(range(0, 20), n))
        pts = [[x, rng.randint(0, 9)] for x in xs]
        l = rng.randint(0, n - 2)
        r = rng.randint(l + 1, n - 1)
        check_index(H, pts, l, r)
        check_index(H, pts, 0, n - 1)
    corners = [(x, y) for x in (0, 1, 3) for y in (0, 2, 3)]
    rects = [(p, q) for p in corners for q in corners]
    sel = rects if tier != "quick" else rng.sample(rects, 25)
    for (p1, p2) in sel:
        for (q1, q2) in sel:
            check_rect(H, p1, p2, q1, q2)
    pts3 = [(x, y) for x in (0, 1, 2, 4) for y in (0, 1, 3)]
    tris = list(itertools.combinations(pts3, 3))
    for tri in (tris if tier != "quick" else rng.sample(tris, 80)):
        check_menger(H, tri)
    check_menger(H, ((0.0, 0.0), (1e-4, 2e-4), (3e-4, 1e-4)))
    for n in range(1, 6):
        for arr in itertools.product([0, 0.1, 0.5, 2], repeat=n):
            check_rank(H, list(arr))


if __name__ == "__main__":
    Harness("C17", "integer-grid point sets / segments (degenerate a=b, vertical, far-from-origin short segments), x-sorted curves with all sub-ranges sampled, "
            "rectangle pairs from a 3x3 corner grid, point triples from a 4x3 grid in all 6 argument orders, value tuples with ties for rank; "
            "oracle: definitions in exact rational arithmetic with one correctly rounded sqrt, rel. tolerance 1e-9", "grids as stated; seeded random integer inputs").main(run)
