"""C18 bounded layer: hull routines against brute-force hulls computed in exact integer arithmetic."""
import itertools
from fractions import Fraction as F
import numpy as np
import kneeliverse.convex_hull as ch
from rt.common import Harness, guarded, Timeout


def orient(a, b, c):
    return (F(b[0]) - F(a[0])) * (F(c[1]) - F(a[1])) - (F(c[0]) - F(a[0])) * (F(b[1]) - F(a[1]))


def lower_chain(pts):
    """brute force: index i is on the lower chain iff no segment (a,b) with a < i < b has point i strictly above or on it...
    precisely: vertices of the lower convex chain from 0 to n-1 (collinear interior points excluded)."""
    n = len(pts)
    out = []
    for i in range(n):
        if i in (0, n - 1):
            out.append(i)
            continue
        ok = True
        for a in range(0, i):
            for b in range(i + 1, n):
                if orient(pts[a], pts[b], pts[i]) >= 0:      # i on or above the chord a-b -> not a strict lower vertex
                    ok = False
                    break
            if not ok:
                break
        if ok:
            out.append(i)
    return out


def upper_chain(pts):
    return lower_chain([(p[0], -p[1]) for p in pts])


def check_chain(H, pts, which):
    P = np.array(pts, dtype=float)
    inp = {"points": pts, "which": which}
    H.case((which, tuple(map(tuple, pts))), nontrivial=len(pts) > 2, sample=inp)
    f = ch.graham_scan_lower if which == "lower" else ch.graham_scan_upper
    try:
        got = [int(v) for v in f(P.copy())]
    except Exception as e:
        H.violation("graham_scan_%s(%s) raised %s: %s" % (which, pts, type(e).__name__, e), inp, clause="completes")
        return
    want = lower_chain(pts) if which == "lower" else upper_chain(pts)
    if got != want:
        H.violation("graham_scan_%s(%s) = %s, brute-force hull chain is %s" % (which, pts, got, want), inp, clause="chain")


def hull_sets(pts):
    """(extreme vertices, boundary points) of the convex hull of distinct points, exact"""
    n = len(pts)
    boundary, extreme = set(), set()
    allcol = all(orient(pts[0], pts[1], p) == 0 for p in pts)
    if allcol:
        key = lambda i: (F(pts[i][0]), F(pts[i][1]))
        lo, hi = min(range(n), key=key), max(range(n), key=key)
        return {lo, hi}, set(range(n))
    for i in range(n):
        # boundary: exists a line through i with all points on one side (closed)
        onb = False
        for j in range(n):
            if j == i:
                continue
            s = [orient(pts[i], pts[j], p) for p in pts]
            if all(v >= 0 for v in s) or all(v <= 0 for v in s):
                onb = True
                break
        if onb:
            boundary.add(i)
            # extreme: not strictly between two other boundary-collinear points
            between = False
            for a in range(n):
                for b in range(n):
                    if a != i and b != i and a != b and orient(pts[a], pts[b], pts[i]) == 0:
                        if min(pts[a][0], pts[b][0]) <= pts[i][0] <= max(pts[a][0], pts[b][0]) and min(pts[a][1], pts[b][1]) <= pts[i][1] <= max(pts[a][1], pts[b][1]):
                            between = True
            if not between:
                extreme.add(i)
    return extreme, boundary


def general_position(pts):
    return all(orient(a, b, c) != 0 for a, b, c in itertools.combinations(pts, 3))


def clockwise_from_lowest_leftmost(pts, verts):
    start = min(verts, key=lambda i: (pts[i][0], pts[i][1]))
    import math
    rest = [i for i in verts if i != start]
    cx = sum(F(pts[i][0]) for i in verts) / len(verts)
    cy = sum(F(pts[i][1]) for i in verts) / len(verts)
    ang = lambda i: math.atan2(float(F(pts[i][1]) - cy), float(F(pts[i][0]) - cx))
    order = sorted(verts, key=lambda i: -ang(i))
    k = order.index(start)
    return order[k:] + order[:k]


def check_scan(H, pts):
    P = np.array(pts, dtype=float)
    inp = {"points": pts, "which": "graham_scan"}
    H.case(("scan", tuple(map(tuple, pts))), sample=inp)
    try:
        got = [int(v) for v in guarded(ch.graham_scan, P.copy(), limit=20)]
    except Timeout:
        H.violation("graham_scan(%s) did not return" % pts, inp, clause="completes")
        return
    except Exception as e:
        H.violation("graham_scan(%s) raised %s: %s" % (pts, type(e).__name__, e), inp, witness_id="graham_scan-collinear-stack-underflow" if type(e).__name__ == "IndexError" else None, clause="completes")
        return
    extreme, boundary = hull_sets(pts)
    if not extreme <= set(got) or not set(got) <= boundary:
        H.violation("graham_scan(%s) = %s: extreme vertices %s, boundary points %s" % (pts, got, sorted(extreme), sorted(boundary)), inp, clause="hull-set")
        return
    if general_position(pts):
        want = clockwise_from_lowest_leftmost(pts, sorted(extreme))
        if got != want:
            H.violation("graham_scan(%s) = %s, vertex set clockwise from the lowest-leftmost point is %s" % (pts, got, want), inp, clause="order")


def replay(inp):
    H = Harness("C18", "", "")
    if inp["which"] in ("lower", "upper"):
        check_chain(H, inp["points"], inp["which"])
    else:
        check_scan(H, inp["points"])
    return H.violations[0]["what"] if H.violations else None


def run(H, tier, rng):
    # x-sorted curves: all y patterns over a small alphabet (plateaus, collinear runs, non-monotone)
    for n in range(2, 7 if tier == "quick" else 8):
        for ys in itertools.product([0, 1, 2, 3], repeat=n):
            if tier == "quick" and n >= 6 and rng.random() > 0.25:
                continue
            pts = [[i, y] for i, y in enumerate(ys)]
            check_chain(H, pts, "lower")
            check_chain(H, pts, "upper")
    for _ in range(100 if tier == "quick" else 1500):
        n = rng.randint(3, 9)
        xs = sorted(rng.sample(range(0, 20), n))
        pts = [[x, rng.randint(0, 6)] for x in xs]
        check_chain(H, pts, "lower")
        check_chain(H, pts, "upper")
    # planar point sets on a grid: general position and degenerate
    grid = [(x, y) for x in range(4) for y in range(4)]
    for n in (3, 4, 5):
        combos = list(itertools.combinations(grid, n))
        for c in (combos if tier != "quick" and n <= 4 else rng.sample(combos, 150 if tier == "quick" else 1200)):
            pts = [list(p) for p in c]
            rng.shuffle(pts)
            check_scan(H, pts)
    # general-position sets at very small / large scales (orientation tests must stay exact: power-of-two scaling)
    import random as _r
    g = _r.Random(12345)
    bases = []
    while len(bases) < (4 if tier == "quick" else 20):
        cand = g.sample([(x, y) for x in range(13) for y in range(13)], 9)
        if general_position(cand):
            bases.append(cand)
    for base in bases:
        for scale in (2.0 ** -17, 2.0 ** -20, 2.0 ** 10, 1.0):
            check_scan(H, [[a * scale, b * scale] for a, b in base])
    check_scan(H, [[0, 0], [1, 1], [2, 2], [3, 3]])
    check_scan(H, [[0, 0], [2, 0], [1, 0], [3, 0], [4, 0]])


if __name__ == "__main__":
    Harness("C18", "all x-sorted curves with y in {0..3}^n for n <= 6 (7 thorough; sampled at the largest n in quick) + random x-sorted integer curves for "
            "the lower/upper chains; point sets of 3-5 grid points (general position and degenerate, shuffled), scaled general-position sets, "
            "fully collinear sets for graham_scan; oracle: brute-force hull in exact arithmetic", "n <= 9 chains, n <= 12 scan").main(run, replay)
