"""C16 bounded layer: metrics and linear-fit helpers against their textbook formulas evaluated in exact rational arithmetic
(square roots and logarithms taken once, in double precision, on the exact rational argument)."""
import itertools, math
from fractions import Fraction as F
import numpy as np
import kneeliverse.metrics as M
import kneeliverse.linear_fit as lf
from rt.common import Harness

EPS = F(1, 10 ** 16)
REL = 1e-9


def close(a, b, rel=REL, ab=1e-12):
    return (math.isnan(a) and math.isnan(b)) or abs(a - b) <= ab + rel * max(abs(a), abs(b))


def fr(v):
    return [F(float(x)) for x in v]


def mean(v):
    return sum(v) / len(v)


def spec_r2(y, yh, adjusted=False):
    y, yh = fr(y), fr(yh)
    ym = mean(y)
    rss = sum((a - b) ** 2 for a, b in zip(y, yh))
    tss = sum((a - ym) ** 2 for a in y)
    rv = 1 - rss if tss == 0 else 1 - rss / tss
    if adjusted:
        rv = 1 - (1 - rv) * F(len(y) - 1, len(y) - 2)
    return float(rv)


def spec_rmse(y, yh):
    y, yh = fr(y), fr(yh)
    return math.sqrt(mean([(a - b) ** 2 for a, b in zip(y, yh)]))


def spec_rmsle(y, yh):
    return math.sqrt(math.fsum((math.log(float(a) + 1) - math.log(float(b) + 1)) ** 2 for a, b in zip(y, yh)) / len(y))


def spec_rmspe(y, yh):
    y, yh = fr(y), fr(yh)
    return math.sqrt(mean([((a - b) / (a + EPS)) ** 2 for a, b in zip(y, yh)]))


def spec_rpd(y, yh):
    y, yh = fr(y), fr(yh)
    return float(mean([abs((a - b) / (max(a, b) + EPS)) for a, b in zip(y, yh)]))


def spec_smape(y, yh):
    y, yh = fr(y), fr(yh)
    return float(mean([2 * abs(b - a) / (abs(a) + abs(b) + EPS) for a, b in zip(y, yh)]))


def spec_residuals(y, yh):
    y, yh = fr(y), fr(yh)
    return float(sum((a - b) ** 2 for a, b in zip(y, yh)))


SPECS = {"rmse": spec_rmse, "rmsle": spec_rmsle, "rmspe": spec_rmspe, "rpd": spec_rpd, "smape": spec_smape, "residuals": spec_residuals}


def check_pair(H, y, yh, tag):
    ya, yha = np.array(y, dtype=float), np.array(yh, dtype=float)
    inp = {"y": list(map(float, y)), "y_hat": list(map(float, yh))}
    H.case((tag, tuple(inp["y"]), tuple(inp["y_hat"])), nontrivial=len(y) > 1, sample=inp)
    for name, spec in SPECS.items():
        got = float(getattr(M, name)(ya.copy(), yha.copy()))
        want = spec(y, yh)
        if not close(got, want):
            H.violation("metrics.%s(y=%s, y_hat=%s) = %r, formula gives %r" % (name, inp["y"], inp["y_hat"], got, want), inp, clause=name)
            return
        if name in ("rmse", "smape", "residuals"):
            sw = float(getattr(M, name)(yha.copy(), ya.copy()))
            if not close(sw, got):
                H.violation("metrics.%s not symmetric on %s: %r vs %r" % (name, inp, got, sw), inp, clause=name + "-sym")
                return
        if got < -1e-15 or (name == "smape" and got > 2 + 1e-12):
            H.violation("metrics.%s = %r out of range on %s" % (name, got, inp), inp, clause=name + "-range")
            return
    got = float(M.r2(ya.copy(), yha.copy()))
    want = spec_r2(y, yh)
    if not close(got, want, rel=1e-7) or got > 1 + 1e-9:
        H.violation("metrics.r2(y=%s, y_hat=%s) = %r, 1 - RSS/TSS = %r" % (inp["y"], inp["y_hat"], got, want), inp, clause="r2")
        return
    if len(y) >= 3:
        got = float(M.r2(ya.copy(), yha.copy(), M.R2.adjusted))
        want = spec_r2(y, yh, True)
        if not close(got, want, rel=1e-7):
            H.violation("metrics.r2(adjusted)(y=%s, y_hat=%s) = %r, formula gives %r" % (inp["y"], inp["y_hat"], got, want), inp, clause="r2-adjusted")


def pearson2(x, y):
    x, y = fr(x), fr(y)
    mx, my = mean(x), mean(y)
    sxy = sum((a - mx) * (b - my) for a, b in zip(x, y))
    sxx = sum((a - mx) ** 2 for a in x)
    syy = sum((b - my) ** 2 for b in y)
    if sxx == 0 or syy == 0:
        return None
    return float(sxy * sxy / (sxx * syy))


def check_fit(H, x, y, coef, tag):
    xa, ya = np.array(x, dtype=float), np.array(y, dtype=float)
    pts = np.column_stack((xa, ya))
    b, m = coef
    inp = {"x": list(map(float, x)), "y": list(map(float, y)), "coef": [b, m]}
    H.case((tag, tuple(inp["x"]), tuple(inp["y"]), b, m), nontrivial=len(x) > 2)
    yh = xa * m + b
    pairs = [("rmspe", lf.rmspe, lf.rmspe_points, M.rmspe), ("rmsle", lf.rmsle, lf.rmsle_points, M.rmsle), ("smape", lf.smape, lf.smape_points, M.smape),
             ("rpd", lf.rpd, lf.rpd_points, M.rpd), ("rmse", lf.rmse, lf.rmse_points, M.rmse), ("residuals", lf.linear_residuals, lf.linear_residuals_points, M.residuals)]
    for name, f, fp, met in pairs:
        want = SPECS[name](y, [F(float(v)) * F(m) + F(b) for v in x])
        for fn, args in ((f, (xa, ya, coef)), (fp, (pts, coef))):
            got = float(fn(*args))
            if not close(got, want, rel=1e-7):
                H.violation("lf.%s(%s) = %r, %s applied to m*x+b gives %r" % (fn.__name__, inp, got, name, want), inp, clause="wrapper-" + name)
                return
    for variant in ((M.R2.classic, False), (M.R2.adjusted, True)):
        if variant[1] and len(x) < 3:
            continue
        want = spec_r2(y, [F(float(v)) * F(m) + F(b) for v in x], variant[1])
        for fn, args in ((lf.linear_r2, (xa, ya, coef, variant[0])), (lf.linear_r2_points, (pts, coef, variant[0]))):
            got = float(fn(*args))
            if not close(got, want, rel=1e-7):
                H.violation("lf.%s(%s, %s) = %r, R2 of m*x+b is %r" % (fn.__name__, inp, variant[0], got, want), inp, clause="wrapper-r2")
                return
    # endpoint fit passes through the first and last point
    if x[0] != x[-1]:
        b2, m2 = lf.linear_fit(xa, ya)
        if not (close(m2 * x[0] + b2, y[0], rel=1e-9, ab=1e-9 * max(1, abs(y[0]))) and close(m2 * x[-1] + b2, y[-1], rel=1e-9, ab=1e-9 * max(1, abs(y[-1])))):
            H.violation("linear_fit(%s,%s) = (b=%r, m=%r) does not pass through the end points" % (inp["x"], inp["y"], b2, m2), inp, clause="endpoint-fit")
            return
    if len(x) >= 3:
        p2 = pearson2(x, y)
        if p2 is not None:
            got = float(lf.r2(xa, ya))
            if not close(got, p2, rel=1e-7):
                H.violation("lf.r2(%s,%s) = %r, squared Pearson correlation is %r" % (inp["x"], inp["y"], got, p2), inp, clause="best-fit-r2")
                return
            got = float(lf.r2(xa, ya, M.R2.adjusted))
            want = 1 - (1 - p2) * (len(x) - 1) / (len(x) - 2)
            if not close(got, want, rel=1e-7):
                H.violation("lf.r2(adjusted) = %r, expected %r" % (got, want), inp, clause="best-fit-r2-adjusted")


def run(H, tier, rng):
    M.rmse(np.array([1.0]), np.array([1.0]))
    vals = [0, 1, 2, 5]
    for n in (1, 2, 3):
        for y in itertools.product(vals, repeat=n):
            for yh in itertools.product(vals, repeat=n):
                if tier == "quick" and n == 3 and rng.random() > 0.15:
                    continue
                check_pair(H, list(y), list(yh), "grid")
    for off in (3e8, 1e9, 5e8):
        y = [off + k for k in range(10)]
        check_pair(H, y, [v + (0.5 if k % 2 else -0.25) for k, v in enumerate(y)], "offset")
        check_pair(H, [off] * 6 + [off + 1], [off + 0.5] * 7, "offset-flat")
    for _ in range(150 if tier == "quick" else 3000):
        n = rng.randint(1, 8)
        y = [rng.randint(0, 50) / 4.0 for _ in range(n)]
        yh = [max(0.0, v + rng.randint(-8, 8) / 8.0) for v in y]
        check_pair(H, y, yh, "rand")
    for _ in range(80 if tier == "quick" else 1500):
        n = rng.randint(2, 8)
        x = sorted(rng.sample(range(0, 30), n))
        y = [rng.randint(0, 40) / 4.0 for _ in range(n)]
        coef = (rng.randint(-8, 8) / 4.0 + 10.0, rng.randint(0, 8) / 8.0)
        check_fit(H, x, y, coef, "fit")
    check_fit(H, [0, 1, 2], [1, 3, 2], (1.0, 0.5), "fit-fixed")


if __name__ == "__main__":
    Harness("C16", "all vector pairs over {0,1,2,5} of length 1..3 (sampled at length 3 in quick), vectors with a large common offset (3e8..1e9), "
            "seeded random quarter-integer vectors of length <= 8, random x-sorted fits; oracle: textbook formulas incl. the eps guard in exact "
            "rational arithmetic (one sqrt/log in double precision), relative tolerance 1e-9 (1e-7 for R2 and the fit wrappers)", "length <= 8").main(run)
