"""C19 bounded layer: confusion matrix accounting, matching errors and scores against the statement evaluated exactly."""
import itertools, math
from fractions import Fraction as F
import numpy as np
import kneeliverse.evaluation as ev
from rt.common import Harness, curve


def cm_oracle(pts, knees, expected, t):
    xs = [F(float(p[0])) for p in pts]
    dx = abs(max(xs) - min(xs))
    kx = [xs[k] for k in knees]
    used = set()
    tp = fn = 0
    for e in expected:
        px = F(float(e[0]))
        d = [abs(k - px) / dx for k in kx]
        j = min(range(len(d)), key=lambda i: (d[i], i))
        if d[j] <= t and j not in used:
            tp += 1
            used.add(j)
        else:
            fn += 1
    fp = len(knees) - tp
    tn = len(pts) - (tp + fp + fn)
    return [[tp, fp], [fn, tn]]


def sides(s, knee_points, expected):
    if s is ev.Strategy.knees:
        return knee_points, expected
    if s is ev.Strategy.expected:
        return expected, knee_points
    if s is ev.Strategy.best:      # the shorter side is matched against the longer one; ties -> expected
        return (expected, knee_points) if len(expected) <= len(knee_points) else (knee_points, expected)
    return (expected, knee_points) if len(expected) >= len(knee_points) else (knee_points, expected)


def match_errors(a, b):
    """every point of a with *all* its nearest neighbours in b (Euclidean; exact ties and ties up to rounding: the statement does not
    say which of several equally near points is matched) -> list of (p, [q, ...])"""
    out = []
    for p in a:
        d = [(F(float(p[0])) - F(float(q[0]))) ** 2 + (F(float(p[1])) - F(float(q[1]))) ** 2 for q in b]
        m = min(d)
        out.append((p, [b[i] for i in range(len(b)) if d[i] <= m * (1 + F(1, 10 ** 9)) + F(1, 10 ** 24)]))
    return out


def error_range(pairs, power, n):
    """smallest and largest value of the mean per-coordinate error over the admissible choices of nearest neighbours"""
    lo = hi = F(0)
    for p, qs in pairs:
        vals = [sum(abs(F(float(p[c])) - F(float(q[c]))) ** power for c in (0, 1)) for q in qs]
        lo += min(vals)
        hi += max(vals)
    return float(lo / (2 * n)), float(hi / (2 * n))


def within(g, lo, hi):
    return close(g, lo) or close(g, hi) or lo <= g <= hi


def close(a, b):
    return abs(a - b) <= 1e-12 + 1e-9 * max(abs(a), abs(b))


def check(H, name, pts, knees, expected, t):
    P = np.array(pts, dtype=float)
    K = np.array(knees, dtype=int)
    E = np.array(expected, dtype=float)
    inp = {"curve": name, "points": pts, "knees": list(knees), "expected": [list(e) for e in expected], "t": str(t)}
    H.case((name, tuple(knees), tuple(map(tuple, expected)), t), sample=inp)
    before = (P.copy(), K.copy(), E.copy())
    got = ev.cm(P, K, E, float(t))
    want = cm_oracle(pts, knees, expected, t)
    if np.asarray(got).tolist() != want:
        H.violation("cm(knees=%s, expected=%s, t=%s) on %s = %s, greedy one-to-one matching gives %s" % (list(knees), inp["expected"], t, name, np.asarray(got).tolist(), want), inp, clause="cm")
        return
    (tp, fp), (fn, tn) = want
    if tp + fn != len(expected) or tp + fp != len(knees) or tp + fp + fn + tn != len(pts):
        H.violation("accounting identities violated: %s" % want, inp, clause="cm-identities")
        return
    cmv = np.array(want)
    acc, f1 = float(ev.accuracy(cmv)), float(ev.f1score(cmv))
    if not (0 <= acc <= 1) or not (0 <= f1 <= 1) or math.isnan(f1):
        H.violation("accuracy=%r f1=%r out of [0,1] for cm=%s" % (acc, f1, want), inp, clause="score-range")
        return
    den = (tp + fp) * (tp + fn) * (tn + fp) * (tn + fn)
    if den > 0:
        m = float(ev.mcc(cmv))
        if not (-1 - 1e-12 <= m <= 1 + 1e-12):
            H.violation("mcc=%r out of [-1,1] for cm=%s" % (m, want), inp, clause="mcc-range")
            return
        if fp == 0 and fn == 0 and tp > 0 and not (close(m, 1) and close(acc, 1) and close(f1, 1)):
            H.violation("perfect detection but accuracy=%r f1=%r mcc=%r" % (acc, f1, m), inp, clause="perfect")
            return
    kp = [pts[k] for k in knees]
    for s in ev.Strategy:
        a, b = sides(s, kp, [list(e) for e in expected])
        pairs = match_errors(a, b)
        w_mae, w_mse = error_range(pairs, 1, len(a)), error_range(pairs, 2, len(a))
        g_mae, g_mse, g_rmse = float(ev.mae(P, K, E, s)), float(ev.mse(P, K, E, s)), float(ev.rmse(P, K, E, s))
        if not (within(g_mae, *w_mae) and within(g_mse, *w_mse) and close(g_rmse, math.sqrt(g_mse)) and g_mae >= 0 and g_mse >= 0):
            H.violation("strategy %s: mae=%r mse=%r rmse=%r, nearest-neighbour matching from the selected side gives mae in %r mse in %r" % (s, g_mae, g_mse, g_rmse, w_mae, w_mse), inp, clause="errors")
            return
        if all(F(float(p[c])) + F(1, 10 ** 16) != 0 for p, _ in pairs for c in (0, 1)):
            lo = hi = F(0)
            for p, qs in pairs:
                vals = [sum(((F(float(p[c])) - F(float(q[c]))) / (F(float(p[c])) + F(1, 10 ** 16))) ** 2 for c in (0, 1)) for q in qs]
                lo += min(vals)
                hi += max(vals)
            w = (math.sqrt(float(lo / (2 * len(a)))), math.sqrt(float(hi / (2 * len(a)))))
            g = float(ev.rmspe(P, K, E, s))
            if not within(g, *w) or g < 0:
                H.violation("strategy %s: rmspe=%r, expected in %r" % (s, g, w), inp, clause="rmspe")
                return
    if not (np.array_equal(before[0], P) and np.array_equal(before[1], K) and np.array_equal(before[2], E)):
        H.violation("an evaluation function modified its arguments", inp, clause="frame")


def run(H, tier, rng):
    curves = [("lin-11", [[x, 10 - x] for x in range(11)]), ("hyp-8", [[x + 1, 8.0 / (x + 1)] for x in range(8)]),
              ("gap-7", [[0, 9], [1, 7], [2, 6], [5, 3], [6, 2.5], [9, 1], [12, 0.5]]), ("lin-21", [[x, 30 - x] for x in range(21)])]
    ts = [F(0), F(1, 100), F(1, 10), F(15, 100), F(1, 4), F(1, 2), F(1)]
    for name, pts in curves:
        n = len(pts)
        for _ in range(60 if tier == "quick" else 600):
            k = rng.randint(1, min(4, n - 1))
            knees = sorted(rng.sample(range(n), k))
            m = rng.randint(1, max(1, min(4, n - k)))
            mode = rng.random()
            if mode < 0.3:
                expected = [list(pts[i]) for i in sorted(rng.sample(range(n), m))]
            elif mode < 0.5:
                expected = [list(pts[i]) for i in knees]           # E exactly the knee points
            else:
                expected = [[rng.choice(pts)[0] + rng.choice([0, 0.5, -0.5, 1.5]), rng.randint(0, 9) + 0.5] for _ in range(m)]
                if rng.random() < 0.5:
                    expected.sort()
            for t in (ts if tier != "quick" else rng.sample(ts, 3)):
                check(H, name, pts, knees, expected, t)
                if len(H.violations) >= 20:
                    return
    # several expected points competing for one knee, the earlier one out of tolerance
    pts = [[x, 10 - x] for x in range(11)]
    check(H, "compete", pts, [2, 8], [[0.5, 9.5], [2.0, 8.0]], F(1, 10))
    check(H, "compete2", pts, [2, 8], [[2.0, 8.0], [2.4, 7.0], [8.0, 2.0]], F(1, 10))
    check(H, "total-miss", [[x, 20 - x] for x in range(21)], [3], [[15, 5]], F(1, 100))
    for k, pt in ((3, 5), (0, 20), (10, 10)):
        check(H, "perfect", [[x, 20 - x] for x in range(21)], [k], [[k, 20 - k]], F(1, 100))


if __name__ == "__main__":
    Harness("C19", "4 curves x seeded random knee sets (1-4) x expected sets (curve points, exactly the knee points, off-curve points; ordered and "
            "unordered) x tolerances {0,.01,.1,.15,.25,.5,1} x 4 strategies, plus competition / total-miss / perfect-detection cases; oracle: the "
            "statement in exact rational arithmetic", "n <= 21, |K|,|E| <= 4").main(run)
