"""Concrete interpreter of the sidecar contract language (the same texts kvc interprets
symbolically): used by the runtime monitor for replay and for the bounded layers.
Runs under the repository's interpreter (/venv/bin/python); needs no z3."""
import ast
import math
from fractions import Fraction
import numpy as np


class NotEvaluable(Exception):
    pass


class _Rewrite(ast.NodeTransformer):
    def visit_Call(self, n):
        self.generic_visit(n)
        if isinstance(n.func, ast.Name):
            f = n.func.id
            if f == "implies":
                return ast.BoolOp(ast.Or(), [ast.UnaryOp(ast.Not(), n.args[0]), n.args[1]])
            if f == "ite":
                return ast.IfExp(n.args[0], n.args[1], n.args[2])
            if f == "old":
                return _Old().visit(n.args[0])
            if f in ("uf", "ufa"):
                raise NotEvaluable("uninterpreted spec function")
        return n


class _Old(ast.NodeTransformer):
    def visit_Name(self, n):
        if isinstance(n.ctx, ast.Load) and not n.id.startswith("__"):
            return ast.Name("__old_" + n.id if n.id not in HELPERS else n.id, ast.Load())
        return n

    def visit_Lambda(self, n):
        # bound variables keep their names
        bound = {a.arg for a in n.args.args}
        body = _OldExcept(bound).visit(n.body)
        return ast.Lambda(n.args, body)


class _OldExcept(_Old):
    def __init__(self, bound):
        self.bound = bound

    def visit_Name(self, n):
        if n.id in self.bound:
            return n
        return _Old.visit_Name(self, n)


def forall(lo, hi, f):
    nargs = f.__code__.co_argcount
    if nargs == 1:
        return all(f(k) for k in range(int(lo), int(hi)))
    rng = range(int(lo), int(hi))
    return all(f(a, b) for a in rng for b in rng)


def forall2(lo, hi, f):
    return all(f(a, b) for a in range(int(lo), int(hi)) for b in range(a + 1, int(hi)))


def exists(lo, hi, f):
    return any(f(k) for k in range(int(lo), int(hi)))


def seq_eq(a, b):
    return len(a) == len(b) and all(np.all(np.asarray(x) == np.asarray(y)) for x, y in zip(a, b))


def Sum(*args):
    if len(args) == 1:
        return sum(args[0])
    lo, hi, f = args
    return sum(f(k) for k in range(int(lo), int(hi)))


HELPERS = {
    "forall": forall, "forall2": forall2, "exists": exists, "iff": lambda a, b: bool(a) == bool(b),
    "seq_eq": seq_eq, "is_none": lambda v: v is None, "opt_val": lambda v: v, "sqrt": math.sqrt,
    "real": float, "floor": math.floor, "trunc": int, "absr": abs, "sq": lambda v: v * v,
    "min2": min, "max2": max, "Sum": Sum, "SumRange": lambda seq, lo, hi: sum(seq[int(lo):int(hi)]), "len": len, "abs": abs, "min": min, "max": max, "int": int,
    "float": float, "True": True, "False": False, "None": None, "np": np, "math": math,
}


def compile_spec(text):
    tree = ast.parse(text.strip(), mode="eval")
    tree = _Rewrite().visit(tree)
    ast.fix_missing_locations(tree)
    return compile(tree, "<contract>", "eval")


def eval_spec(text, env, old_env=None):
    code = compile_spec(text)
    g = dict(HELPERS)
    g.update(env)
    for k, v in (old_env or {}).items():
        g["__old_" + k] = v
    return bool(eval(code, g))


def check_clauses(clauses, env, old_env=None):
    """returns (failed list, skipped count)"""
    failed = []
    skipped = 0
    for c in clauses:
        try:
            if not eval_spec(c, env, old_env):
                failed.append(c)
        except NotEvaluable:
            skipped += 1
    return failed, skipped
