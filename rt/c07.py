"""C07 bounded layer: mapping / compute_removed_points on exhaustively enumerated index sets."""
import itertools
import numpy as np
import kneeliverse.rdp as rdp
from rt.common import Harness, family_curves, subsets_with_ends, guarded, Timeout, curve


def removed_of(reduced):
    return np.array([[reduced[k], reduced[k + 1] - reduced[k] - 1] for k in range(len(reduced) - 1)])


def check_one(H, n, reduced, positions, perm=None):
    reduced = np.array(reduced)
    pts = curve(np.arange(n), np.arange(n)[::-1])
    removed = rdp.compute_removed_points(pts, reduced)
    exp = removed_of(reduced)
    if removed.shape != exp.shape or not np.array_equal(removed, exp):
        H.violation("compute_removed_points(%s) = %s, expected %s" % (reduced.tolist(), removed.tolist(), exp.tolist()),
                    {"n": n, "reduced": reduced, "positions": positions, "perm": perm}, clause="removed-table")
        return
    I = np.array(positions, dtype=int)
    rem = removed if perm is None else removed[list(perm)]
    before = (I.copy(), reduced.copy(), rem.copy())
    for attempt in (1, 2):      # the history clause: a second call on the same reduction gives the same answer
        got = rdp.mapping(I, reduced, rem) if perm is None else rdp.mapping(I, reduced, rem, sorted=False)
        if not (np.array_equal(before[0], I) and np.array_equal(before[1], reduced) and np.array_equal(before[2], rem)):
            H.violation("mapping modified its arguments: removed %s -> %s" % (before[2].tolist(), rem.tolist()),
                        {"n": n, "reduced": reduced, "positions": positions, "perm": perm}, clause="frame")
            return
    want = reduced[I] if len(I) else np.array([])
    if len(got) != len(want) or not np.array_equal(np.asarray(got), want):
        H.violation("mapping(%s, %s, removed%s) = %s, expected %s" % (I.tolist(), reduced.tolist(),
                    "" if perm is None else "[perm %s], sorted=False" % (list(perm),), np.asarray(got).tolist(), want.tolist()),
                    {"n": n, "reduced": reduced, "positions": positions, "perm": perm}, clause="mapping")


def replay(inp):
    H = Harness("C07", "", "")
    check_one(H, inp["n"], inp["reduced"], inp["positions"], inp.get("perm"))
    return H.violations[0]["what"] if H.violations else None


def run(H, tier, rng):
    nmax = 9 if tier == "quick" else 11
    for n in range(2, nmax + 1):
        for red in subsets_with_ends(n):
            m = len(red)
            poslists = [list(range(m)), [m - 1], [0], list(range(0, m, 2)), [0, m - 1], [m // 2] * 2]
            if m <= 5:
                poslists = [list(c) for r in range(0, m + 1) for c in itertools.combinations(range(m), r)]
            for pos in poslists:
                H.case((n, tuple(red), tuple(pos)), nontrivial=len(red) < n and len(pos) > 0,
                       sample={"n": n, "reduced": red, "positions": pos})
                check_one(H, n, red, pos)
            # row permutations (sorted=False)
            rows = m - 1
            perms = list(itertools.permutations(range(rows))) if rows <= 4 else \
                [tuple(rng.sample(range(rows), rows)) for _ in range(3)] + [tuple(reversed(range(rows)))]
            for p in perms:
                H.case((n, tuple(red), "perm", p), nontrivial=rows > 1)
                check_one(H, n, red, list(range(m)), perm=p)
    H.exhaustive = True
    # simplifier outputs reproduce compute_removed_points
    import kneeliverse.metrics as metrics
    sims = [("rdp", lambda p: rdp.rdp(p, 0.05)), ("rdp-r2", lambda p: rdp.rdp(p, 0.9, cost=metrics.Metrics.r2)),
            ("grdp", lambda p: rdp.grdp(p, 0.05)), ("rdp_fixed", lambda p: rdp.rdp_fixed(p, 4)),
            ("mp_grdp", lambda p: rdp.mp_grdp(p, 0.05, 4)), ("min_point_rdp", lambda p: rdp.min_point_rdp(p, [0.01, 0.001], 3))]
    for name, pts in family_curves(tier, rng, nmax=12):
        for sname, sim in sims:
            try:
                reduced, removed = guarded(sim, pts, limit=20)
            except Timeout:
                H.note("simplifier did not return (C01's concern, skipped here)")
                continue
            except Exception as e:
                H.note("simplifier raised %s (C01's concern, skipped here)" % type(e).__name__)
                continue
            H.case((name, sname), nontrivial=len(reduced) < len(pts))
            try:
                exp = rdp.compute_removed_points(pts, reduced)
                ok = np.asarray(removed).shape == exp.shape and np.array_equal(np.asarray(removed, dtype=float), exp.astype(float))
                if len(reduced) >= 2 and ok:
                    got = rdp.mapping(np.arange(len(reduced)), reduced, removed)
                    ok = np.array_equal(got, reduced)
            except Exception as e:
                ok = False
            if not ok:
                H.violation("%s on %s: removed table %s differs from compute_removed_points %s or mapping fails" % (
                    sname, name, np.asarray(removed).tolist(), exp.tolist()), {"curve": name, "sim": sname}, clause="simplifier-table")


if __name__ == "__main__":
    Harness("C07", "all index subsets of {0..n-1} containing both ends for n<=bound x position lists (all subsets of positions when "
            "the reduction has <=5 points, 6 patterns otherwise) x row permutations (all for <=4 rows, 4 otherwise); plus six simplifier "
            "configurations on the curve families; a case is non-trivial when something was removed and a position is queried",
            "n <= 9 (quick) / 11 (thorough)").main(run, replay)
