"""C01 bounded layer: every simplifier terminates within a linear number of refinement steps with a well-formed reduction."""
import numpy as np
import kneeliverse.rdp as rdp
import kneeliverse.metrics as metrics
from rt.common import Harness, family_curves
from rt.rdpfam import (extra_curves, well_formed, run_simplifier, METRICS, ORDERS, DISTS)


def configs(tier, n):
    ts = [0.5, 0.01] if tier == "quick" else [0.9, 0.5, 0.1, 0.01, 1e-6]
    for d in DISTS:
        for c in METRICS:
            for t in ts:
                tt = min(t, 1.0) if c is metrics.Metrics.r2 else t
                yield ("rdp", dict(t=tt, distance=d, cost=c))
        for o in ORDERS:
            for k in sorted({0, 2, 3, n // 2 + 1, n, n + 1}):
                yield ("rdp_fixed", dict(length=k, distance=d, order=o))
            for c in (METRICS if tier != "quick" else [metrics.Metrics.smape, metrics.Metrics.r2, metrics.Metrics.rpd]):
                t = 0.9 if c is metrics.Metrics.r2 else 0.01
                yield ("grdp", dict(t=t, distance=d, cost=c, order=o))
                yield ("mp_grdp", dict(t=t, min_points=max(0, n - 1), distance=d, cost=c, order=o))
                yield ("mp_grdp", dict(t=(0.1 if c is metrics.Metrics.r2 else 0.5), min_points=3, distance=d, cost=c, order=o))
    yield ("min_point_rdp", dict(t=[0.01, 0.001, 0.0001], min_points=n))
    yield ("min_point_rdp", dict(t=[0.5, 0.9], min_points=2))
    yield ("min_point_rdp", dict(t=[0.3], min_points=0))


def check(H, name, pts, fname, kw):
    f = getattr(rdp, fname)
    kw2 = {k: (list(v) if isinstance(v, list) else v) for k, v in kw.items()}
    status, res, steps = run_simplifier(f, pts.copy(), **kw2)
    inp = {"curve": name, "points": pts, "function": fname, "kwargs": {k: str(v) for k, v in kw.items()}}
    if status != "ok":
        H.violation("%s(%s) on %s: %s" % (fname, kw, name, res), inp, clause="termination" if status == "nonterm" else "completes")
        return
    err = well_formed(pts, res[0], res[1])
    if err:
        H.violation("%s(%s) on %s: %s" % (fname, kw, name, err), inp, clause="well-formed")


def run(H, tier, rng):
    curves = family_curves(tier, rng, nmax=12 if tier == "quick" else 30) + extra_curves(rng)
    for name, pts in curves:
        n = len(pts)
        if tier == "quick" and n > 13 and not name.startswith(("hyper", "exp")):
            continue
        for fname, kw in configs(tier, n):
            H.case((name, fname, str(sorted(kw.items(), key=str))), nontrivial=n > 2,
                   sample={"curve": name, "n": n, "function": fname, "kwargs": {k: str(v) for k, v in kw.items()}})
            check(H, name, pts, fname, kw)
            if len(H.violations) >= 40:
                return


if __name__ == "__main__":
    Harness("C01", "curve families (collinear runs, zero y, plateaus, huge/tiny magnitudes, 2- and 3-point curves, ties) x every simplifier x "
            "Distance x Metrics x Order x thresholds x lengths/min_points; refinement steps counted by instrumenting the distance "
            "primitives against the linear bound 24(2n+4); result checked for (W) and (R)", "n <= 13 (+2 curves of 30/40) quick; n <= 40 thorough").main(run)
