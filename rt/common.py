"""Shared machinery of the bounded layers (B-run): curve families, a harness that counts
cases / distinct non-trivial cases, guards real calls with a time limit and writes the
JSON consumed by kvc.driver.  Runs under /venv/bin/python with PYTHONPATH=<repo>/src:/verif."""
import argparse
import itertools
import json
import math
import os
import random
import signal
import sys
import time
import traceback

import numpy as np


class Timeout(Exception):
    pass


def _alarm(*a):
    raise Timeout()


def guarded(f, *args, limit=10, **kw):
    """call f with a limit of `limit` seconds of *CPU time* of this process (a call that does not terminate burns CPU; a call that
    is merely starved on a busy machine does not, so the verdict does not depend on the load), and a wall-clock backstop of
    10 x limit for a call that blocks without computing; raises Timeout"""
    signal.signal(signal.SIGPROF, _alarm)
    signal.signal(signal.SIGALRM, _alarm)
    signal.setitimer(signal.ITIMER_PROF, limit)
    signal.setitimer(signal.ITIMER_REAL, 10 * limit)
    try:
        return f(*args, **kw)
    finally:
        signal.setitimer(signal.ITIMER_PROF, 0)
        signal.setitimer(signal.ITIMER_REAL, 0)


def tolist(v):
    if isinstance(v, np.ndarray):
        return v.tolist()
    if isinstance(v, (list, tuple)):
        return [tolist(x) for x in v]
    if isinstance(v, (np.integer,)):
        return int(v)
    if isinstance(v, (np.floating,)):
        return float(v)
    if isinstance(v, dict):
        return {str(k): tolist(x) for k, x in v.items()}
    if isinstance(v, (int, float, str, bool)) or v is None:
        return v
    return repr(v)


class Harness:
    def __init__(self, prop, rule, bound):
        self.prop = prop
        self.rule = rule
        self.bound = bound
        self.cases = 0
        self.keys = set()
        self.violations = []
        self.samples = []
        self.notes = {}
        self.exhaustive = False
        self.t0 = time.time()

    def case(self, key, nontrivial=True, sample=None):
        self.cases += 1
        if nontrivial:
            h = hash(key)
            self.keys.add(h)
        if sample is not None and len(self.samples) < 6:
            self.samples.append(tolist(sample))

    def violation(self, what, inp, witness_id=None, clause=None):
        if len(self.violations) < 50:
            self.violations.append({"what": what, "input": tolist(inp), "witness_id": witness_id, "clause": clause})

    def note(self, k, n=1):
        self.notes[k] = self.notes.get(k, 0) + n

    def out(self):
        return {"cases": self.cases, "distinct_nontrivial": len(self.keys), "rule": self.rule, "bound": self.bound,
                "exhaustive_within_bound": self.exhaustive, "violations": self.violations, "samples": self.samples,
                "notes": self.notes, "label": "bounded (never counted as proved)"}

    def main(self, run, replay=None):
        ap = argparse.ArgumentParser()
        ap.add_argument("--tier", default="quick")
        ap.add_argument("--seed", type=int, default=0)
        ap.add_argument("--out")
        ap.add_argument("--replay")
        a = ap.parse_args()
        if a.replay:
            v = json.load(open(a.replay))
            if replay is None:
                print("no replay function for this property")
                sys.exit(0)
            bad = replay(v["input"])
            print("replay:", "VIOLATES" if bad else "holds", bad or "")
            sys.exit(1 if bad else 0)
        rng = random.Random(a.seed)
        np.random.seed(a.seed % (2 ** 32))
        run(self, a.tier, rng)
        res = self.out()
        if a.out:
            json.dump(res, open(a.out, "w"), indent=1, default=str)
        else:
            print(json.dumps(res, indent=1, default=str)[:5000])
        sys.exit(1 if self.violations else 0)


# ------------------------------------------------------------------------------------ curve families
def curve(x, y):
    return np.column_stack((np.asarray(x, dtype=float), np.asarray(y, dtype=float)))


def family_curves(tier, rng, nmax=None, small=True):
    """named performance curves: strictly increasing x, y >= 0, finite"""
    out = []
    ns = [2, 3, 4, 5, 6, 7, 9, 12] if tier == "quick" else [2, 3, 4, 5, 6, 7, 8, 9, 10, 12, 15, 20, 30]
    if nmax:
        ns = [n for n in ns if n <= nmax]
    for n in ns:
        x = np.arange(n, dtype=float)
        out.append(("collinear-desc-%d" % n, curve(x, (n - 1 - x))))
        out.append(("collinear-asc-%d" % n, curve(x, 2 * x + 1)))
        out.append(("zero-y-%d" % n, curve(x, np.zeros(n))))
        out.append(("plateau-%d" % n, curve(x, np.full(n, 3.0))))
        out.append(("expdecay-%d" % n, curve(x, 100.0 * np.exp(-x / 2.0))))
        out.append(("hyper-%d" % n, curve(x + 1, 1.0 / (x + 1))))
        out.append(("convex-%d" % n, curve(x, (x - n / 2.0) ** 2)))
        out.append(("sqrt-%d" % n, curve(x, np.sqrt(x))))
        out.append(("step-%d" % n, curve(x, np.where(x < n // 2, 5.0, 1.0))))
        out.append(("collinear-third-%d" % n, curve(3 * x + 1, (n - 1 - x) / 3.0)))
        out.append(("huge-%d" % n, curve(x * 1e9, 1e12 * np.exp(-x / 3.0))))
        out.append(("tiny-%d" % n, curve(x * 1e-9, 1e-12 * (n - x) ** 2)))
        out.append(("elbow-%d" % n, curve(x, np.where(x < n // 2, 10 - 2 * x, 10 - 2 * (n // 2) - 0.125 * (x - n // 2)).clip(0))))
        xs = np.cumsum([rng.choice([1, 2, 3, 4]) for _ in range(n)]).astype(float)
        out.append(("rand-%d" % n, curve(xs, np.array([rng.random() for _ in range(n)]))))
        ys = np.sort(np.array([rng.random() * 10 for _ in range(n)]))[::-1]
        out.append(("rand-mono-%d" % n, curve(xs, ys)))
        out.append(("rand-int-%d" % n, curve(xs, np.array([float(rng.randint(0, 4)) for _ in range(n)]))))
    return out


def subsets_with_ends(n):
    """all index subsets of {0..n-1} containing 0 and n-1"""
    inner = list(range(1, n - 1))
    for r in range(len(inner) + 1):
        for c in itertools.combinations(inner, r):
            yield [0] + list(c) + [n - 1]
