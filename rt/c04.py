"""C04 bounded layer: threshold RDP equals the recursive RDP partition under the library's own primitives;
thresholds include the exact costs of the sub-ranges (boundary values)."""
import numpy as np
import kneeliverse.rdp as rdp
import kneeliverse.metrics as metrics
from rt.common import Harness, family_curves
from rt.rdpfam import extra_curves, run_simplifier, rdp_partition, seg_cost, accept, split_of, METRICS, DISTS


def thresholds(pts, cost, tier, rng):
    n = len(pts)
    ts = {0.5, 0.1, 0.01}
    ranges = [(0, n)] + [(l, r) for l in range(n) for r in range(l + 3, n + 1)]
    if len(ranges) > 12:
        ranges = [(0, n)] + rng.sample(ranges[1:], min(len(ranges) - 1, 11 if tier == "quick" else 40))
    for l, r in ranges:
        c = float(seg_cost(pts, l, r, cost))
        if np.isfinite(c) and c > 0 and (cost is not metrics.Metrics.r2 or c <= 1):
            ts.add(c)
    if cost is metrics.Metrics.r2:
        ts = {t for t in ts if t <= 1} | {0.9, 0.99}
    return sorted(ts)


def check(H, name, pts, t, d, c):
    inp = {"curve": name, "points": pts, "t": t, "distance": str(d), "cost": str(c)}
    status, res, _ = run_simplifier(rdp.rdp, pts.copy(), t, d, c)
    if status != "ok":
        H.note("rdp did not complete (C01's concern)")
        return
    red = [int(v) for v in res[0]]
    # (K)
    for k in range(len(red) - 1):
        l, r = red[k], red[k + 1] + 1
        if r - l > 2 and not accept(c, seg_cost(pts, l, r, c), t):
            H.violation("rdp(t=%r,%s,%s) on %s keeps segment [%d,%d] whose cost %r is on the rejecting side of t" % (
                t, d, c, name, l, r - 1, float(seg_cost(pts, l, r, c))), inp, clause="K")
            return
    # (P) / (X)
    try:
        want = rdp_partition(pts, t, d, c)
    except RuntimeError:
        H.note("oracle recursion cap")
        return
    if red != want:
        H.violation("rdp(t=%r,%s,%s) on %s returns %s, the recursive RDP partition under the library's primitives is %s" % (
            t, d, c, name, red, want), inp, clause="P")


def replay(inp):
    H = Harness("C04", "", "")
    d = [x for x in DISTS if str(x) == inp["distance"]][0]
    c = [x for x in METRICS if str(x) == inp["cost"]][0]
    check(H, inp["curve"], np.array(inp["points"], dtype=float), inp["t"], d, c)
    return H.violations[0]["what"] if H.violations else None


def run(H, tier, rng):
    curves = family_curves(tier, rng, nmax=12 if tier == "quick" else 20) + extra_curves(rng)
    for name, pts in curves:
        if len(pts) < 3 or (tier == "quick" and len(pts) > 13):
            continue
        for c in METRICS:
            for t in thresholds(pts, c, tier, rng):
                for d in DISTS:
                    H.case((name, str(c), t, str(d)), sample={"curve": name, "cost": str(c), "t": t, "distance": str(d)})
                    check(H, name, pts, t, d, c)
                    if len(H.violations) >= 30:
                        return


if __name__ == "__main__":
    Harness("C04", "curve families x 5 metrics x 2 distances x thresholds {0.5,0.1,0.01} plus the exact endpoint-line costs of up to 12 (40) "
            "sub-ranges of the curve (boundary values r == t); oracle: accept/reject by the statement, recursive partition with interior "
            "arg-max of the requested distance", "n <= 13 quick / 20 thorough").main(run, replay)
