"""C08 bounded layer: the end-to-end pipeline (simplify -> multi-knee on the reduced curve -> worst-knee, corner and cluster
filters -> index mapping) on curve families and the bundled traces."""
import os, warnings
import numpy as np
import kneeliverse.rdp as rdp
import kneeliverse.postprocessing as pp
import kneeliverse.clustering as cl
import kneeliverse.knee_ranking as kr
import kneeliverse.curvature as curvature
import kneeliverse.dfdt as dfdt
import kneeliverse.menger as menger
import kneeliverse.lmethod as lmethod
import kneeliverse.kneedle as kneedle
from rt.common import Harness, family_curves, guarded, Timeout, curve
from rt.rdpfam import extra_curves

warnings.filterwarnings("ignore")
SIMPL = {"rdp": lambda p: rdp.rdp(p, 0.01), "grdp": lambda p: rdp.grdp(p, 0.01), "rdp_fixed": lambda p: rdp.rdp_fixed(p, max(3, len(p) // 2)),
         "mp_grdp": lambda p: rdp.mp_grdp(p, 0.05, max(3, len(p) // 2)), "min_point_rdp": lambda p: rdp.min_point_rdp(p, [0.01, 0.001], max(3, (2 * len(p)) // 3))}
DET = {"curvature": curvature, "dfdt": dfdt, "menger": menger, "lmethod": lmethod, "kneedle": kneedle}
LINK = {"single": cl.single_linkage, "complete": cl.complete_linkage, "centroid": cl.centroid_linkage, "average": cl.average_linkage}
MODES = list(kr.ClusterRanking)


def is_subseq(a, b):
    it = iter(b)
    return all(any(x == y for y in it) for x in a)


def nonincr(h):
    return all(h[i] >= h[i + 1] for i in range(len(h) - 1))


def check(H, name, P, sname, dname, lname, mode):
    inp = {"curve": name, "points": P if len(P) <= 60 else "trace:" + name, "simplifier": sname, "detector": dname, "linkage": lname, "mode": str(mode)}
    H.case((name, sname, dname, lname, str(mode)), sample={k: v for k, v in inp.items() if k != "points"})
    stage = "simplify"
    try:
        reduced, removed = guarded(SIMPL[sname], P.copy(), limit=120)
        pr = P[reduced]
        stage = "multi_knee"
        knees = guarded(DET[dname].multi_knee, pr, limit=120)
        knees = np.asarray(knees, dtype=int)
        stage = "filter_worst_knees"
        k1 = np.asarray(pp.filter_worst_knees(pr, knees), dtype=int)
        stage = "filter_corner_knees"
        k2 = np.asarray(pp.filter_corner_knees(pr, k1), dtype=int)
        stage = "filter_clusters"
        k3 = np.asarray(pp.filter_clusters(pr, k2, LINK[lname], 0.05, mode), dtype=int) if len(k2) else k2
        stage = "mapping"
        out = np.asarray(rdp.mapping(k3, reduced, removed), dtype=int)
    except Timeout:
        H.violation("pipeline %s on %s: stage %s did not return" % (inp, name, stage), inp, clause="completes")
        return
    except Exception as e:
        H.violation("pipeline (%s,%s,%s,%s) on %s: stage %s raised %s: %s" % (sname, dname, lname, mode, name, stage, type(e).__name__, str(e)[:120]), inp, clause="completes")
        return
    for nm, a, b in (("worst-knee filter", k1, knees), ("corner filter", k2, k1), ("cluster filter", k3, k2)):
        if not is_subseq(list(a), list(b)):
            H.violation("pipeline (%s,%s,%s,%s) on %s: the %s returned %s which is not a subsequence of its input %s" % (sname, dname, lname, mode, name, nm, list(a), list(b)), inp, clause="subsequence")
            return
    for nm, k in (("worst-knee filter", k1), ("corner filter", k2), ("cluster filter", k3)):
        if not nonincr([float(pr[i][1]) for i in k]):
            H.violation("pipeline (%s,%s,%s,%s) on %s: knee heights after the %s are not non-increasing: %s" % (sname, dname, lname, mode, name, nm, [float(pr[i][1]) for i in k]), inp, clause="heights")
            return
    red = [int(v) for v in reduced]
    ok = all(b > a for a, b in zip(out, out[1:])) and len(out) == len(k3) and all(int(o) in red for o in out) and \
        all(0 <= int(o) < len(P) and np.array_equal(P[int(o)], pr[int(k)]) for o, k in zip(out, k3))
    if not ok:
        H.violation("pipeline (%s,%s,%s,%s) on %s: mapped knees %s for reduced-space knees %s are not retained points %s with matching coordinates" % (
            sname, dname, lname, mode, name, list(out), list(k3), red[:40]), inp, clause="mapping")


def traces(tier):
    d = os.path.join(os.environ.get("KVC_REPO", "/repo"), "traces")
    out = []
    for f in sorted(os.listdir(d)):
        try:
            pts = np.genfromtxt(os.path.join(d, f), delimiter=",")
            if pts.ndim == 2 and pts.shape[1] == 2 and len(pts) > 10:
                step = max(1, len(pts) // (300 if tier == "quick" else 1500))
                out.append(("trace-" + f, np.ascontiguousarray(pts[::step])))
        except Exception:
            pass
    return out


def run(H, tier, rng):
    curves = [(nm, p) for nm, p in family_curves(tier, rng, nmax=20 if tier == "quick" else 30) + extra_curves(rng) if len(p) >= 6]
    curves = [(nm, p) for nm, p in curves if not nm.startswith(("huge", "tiny"))]
    x = np.arange(60, dtype=float)
    curves.append(("three-regimes-60", curve(x, np.where(x < 20, 100 - 3 * x, np.where(x < 40, 40 - 1 * (x - 20), 20 - 0.2 * (x - 40))))))
    lv = np.repeat([9.1, 7.3, 5.2, 3.3, 1.1], 10)[:48]
    jit = np.array([((i * 7919) % 13 - 6) * 2e-13 / 6 for i in range(48)])
    curves.append(("staircase-jitter-48", curve(np.arange(48), lv + jit)))
    curves += traces(tier)
    combos = [(s, d, l, m) for s in SIMPL for d in DET for l in LINK for m in MODES]
    for name, P in curves:
        sel = combos if (tier != "quick" and len(P) <= 60) else rng.sample(combos, 24 if len(P) <= 60 else 8) + [("min_point_rdp", "kneedle", "average", kr.ClusterRanking.linear), ("rdp", "dfdt", "average", kr.ClusterRanking.hull)]
        for s, d, l, m in sel:
            check(H, name, P, s, d, l, m)
            if len(H.violations) >= 20:
                return


if __name__ == "__main__":
    Harness("C08", "curve families, a three-regime curve, a jittered staircase and the bundled traces (subsampled to <=300 points in quick) x "
            "5 simplifiers x 5 detectors x 4 linkages x 4 ranking modes (24 sampled configurations per small curve in quick, all in thorough)",
            "n <= 60 synthetic; traces subsampled").main(run)
