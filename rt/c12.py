"""C12 bounded layer: cluster filtering keeps one best-ranked knee per cluster (hull mode: structural clauses)."""
import itertools, math, warnings
import numpy as np
import kneeliverse.postprocessing as pp
import kneeliverse.knee_ranking as kr
import kneeliverse.clustering as cl
from rt.common import Harness, curve
from rt.c18 import lower_chain

warnings.filterwarnings("ignore")
LINK = [cl.single_linkage, cl.complete_linkage, cl.centroid_linkage, cl.average_linkage]
MODES = [kr.ClusterRanking.left, kr.ClusterRanking.linear, kr.ClusterRanking.right]


def clusters_of(P, knees, link, t):
    lab = [int(v) for v in link(P[knees], t)]
    groups = {}
    for k, l in zip(knees, lab):
        groups.setdefault(l, []).append(int(k))
    return [groups[l] for l in sorted(groups)]


def check(H, name, P, knees, link, t):
    knees = np.array(knees, dtype=int)
    inp = {"curve": name, "points": P, "knees": knees, "linkage": link.__name__, "t": t}
    groups = clusters_of(P, knees, link, t)
    before = (P.copy(), knees.copy())
    for mode in MODES:
        H.case((name, tuple(knees), link.__name__, t, str(mode)), nontrivial=any(len(g) > 1 for g in groups),
               sample={"curve": name, "knees": knees.tolist(), "linkage": link.__name__, "t": t, "mode": str(mode)})
        try:
            got = [int(v) for v in pp.filter_clusters(P, knees, link, t, mode)]
        except Exception as e:
            H.violation("filter_clusters(%s,%s,%s,t=%s) on %s raised %s: %s" % (knees.tolist(), link.__name__, mode, t, name, type(e).__name__, e), dict(inp, mode=str(mode)), clause="completes")
            continue
        ok = all(b > a for a, b in zip(got, got[1:])) and set(got) <= set(knees.tolist()) and all(sum(1 for v in got if v in g) == 1 for g in groups) and len(got) == len(groups)
        if not ok:
            H.violation("filter_clusters(%s,%s,%s,t=%s) on %s = %s: not exactly one member of every cluster %s" % (knees.tolist(), link.__name__, mode, t, name, got, groups), dict(inp, mode=str(mode)), clause="one-per-cluster")
            continue
        for g in groups:
            if len(g) > 1:
                sc = kr.smooth_ranking(P, np.array(g), mode)
                if np.any(np.isnan(sc)):
                    H.note("NaN ranking score (plateau): maximality not checked")
                    continue
                # the score is "segment fit quality times relative height": relative height = |peak - y| / sum over the cluster (peak = highest
                # member), fit quality is an R^2 in [0,1] - so 0 <= score <= relative height, the peak member scores 0, and on an exactly
                # straight curve (fit quality 1) a middle member at least 3 points away from both ends of the cluster scores its relative height
                ys = np.array([P[v][1] for v in g], dtype=float)
                w = np.abs(ys.max() - ys)
                if w.sum() > 0:
                    rel = w / w.sum()
                    bad = [i for i in range(len(g)) if not (-1e-9 <= sc[i] <= rel[i] + 1e-9) or (rel[i] == 0 and abs(sc[i]) > 1e-12)]
                    if name.startswith("line") and not bad:
                        bad = [i for i in range(1, len(g) - 1) if g[i] - g[0] >= 3 and g[-1] - g[i] >= 3 and abs(sc[i] - rel[i]) > 1e-9]
                    if bad:
                        H.violation("smooth_ranking(%s, %s) on %s = %s is not fit quality (in [0,1]; 1 on a straight line) times relative height %s" % (g, mode, name, np.asarray(sc).tolist(), rel.tolist()),
                                    dict(inp, mode=str(mode)), clause="score")
                        continue
                chosen = [v for v in got if v in g][0]
                if sc[g.index(chosen)] < np.max(sc):
                    H.violation("filter_clusters(%s,%s,%s) on %s keeps %d from cluster %s with score %r < max %r" % (knees.tolist(), link.__name__, mode, name, chosen, g, float(sc[g.index(chosen)]), float(np.max(sc))), dict(inp, mode=str(mode)), clause="best-ranked")
    # hull mode
    H.case((name, tuple(knees), link.__name__, t, "hull"))
    hull = set(lower_chain(P.tolist()))
    try:
        got = [int(v) for v in pp.filter_clusters(P, knees, link, t, kr.ClusterRanking.hull)]
        ok = all(b > a for a, b in zip(got, got[1:])) and set(got) <= set(knees.tolist()) and all(sum(1 for v in got if v in g) <= 1 for g in groups)
        bad = [g for g in groups if any(v in g for v in got) and not any(g[0] <= h <= g[-1] for h in hull)]
        if not ok or bad:
            H.violation("filter_clusters(hull)(%s,%s,t=%s) on %s = %s: clusters %s, lower hull %s%s" % (knees.tolist(), link.__name__, t, name, got, groups, sorted(hull),
                        "; kept a knee from a cluster whose span holds no hull point: %s" % bad if bad else ""), dict(inp, mode="hull"), clause="hull")
    except Exception as e:
        H.violation("filter_clusters(hull)(%s,%s,t=%s) on %s raised %s: %s" % (knees.tolist(), link.__name__, t, name, type(e).__name__, e), dict(inp, mode="hull"), clause="hull-completes")
    # corner variant
    H.case((name, tuple(knees), link.__name__, t, "corners"))
    try:
        got = [int(v) for v in pp.filter_clusters_corners(P, knees, link, t)]
        okc = len(got) == len(groups)
        for g, v in zip(groups, got):
            r = pp.rank_corners_triangle(P, np.array(g))
            # corner-triangle score: half the run from the previous point times the drop to the next point
            want = [0.5 * ((P[k][0] - P[k - 1][0]) * (P[k][1] - P[k + 1][1])) for k in g]
            if not np.allclose(np.asarray(r, dtype=float), want, rtol=1e-12, atol=1e-12):
                H.violation("rank_corners_triangle(%s) on %s = %s, corner-triangle scores are %s" % (g, name, np.asarray(r).tolist(), want), dict(inp, mode="corners"), clause="corner-score")
                okc = True
                break
            okc = okc and v in g and r[g.index(v)] >= np.max(r)
        if not okc:
            H.violation("filter_clusters_corners(%s,%s,t=%s) on %s = %s does not keep a knee maximising the corner-triangle score in every cluster %s" % (knees.tolist(), link.__name__, t, name, got, groups), dict(inp, mode="corners"), clause="corners")
    except Exception as e:
        H.violation("filter_clusters_corners raised %s: %s" % (type(e).__name__, e), dict(inp, mode="corners"), clause="corners-completes")
    if not (np.array_equal(before[0], P) and np.array_equal(before[1], knees)):
        H.violation("filter_clusters modified its arguments", inp, clause="frame")


def run(H, tier, rng):
    curves = [("stair-12", curve(np.arange(12), [100, 60, 40, 40, 30, 20, 12, 12, 8, 5, 3, 1])),
              ("bump-10", curve(np.arange(10), [100, 60, 35, 31, 28, 26, 10, 6, 3, 1])),
              ("hyper-14", curve(np.arange(1, 15), 50.0 / np.arange(1, 15))),
              ("nonmono-10", curve(np.arange(10), [9, 7, 8, 5, 6, 3, 4, 2, 2.5, 1])),
              ("uneven-9", curve([0, 1, 2, 4, 7, 8, 12, 13, 20], [20, 15, 11, 8, 6, 5, 3, 2, 1])),
              ("line-16", curve(np.arange(16), 200.0 - 8.0 * np.arange(16)))]
    for name, P in curves:
        n = len(P)
        interior = list(range(1, n - 1))
        subsets = []
        for r in (2, 3, 4, 5):
            combos = list(itertools.combinations(interior, r))
            subsets += rng.sample(combos, min(len(combos), 14 if tier == "quick" else 120))
        if name.startswith("line"):
            subsets = [(1, 4, 7, 10, 13), (2, 5, 8, 12), (1, 5, 9, 14), (3, 6, 10, 13)] + subsets[:6]
        for knees in subsets:
            for link in LINK:
                for t in (0.05, 0.2, 0.3, 0.6):
                    check(H, name, P, list(knees), link, t)
                    if len(H.violations) >= 20:
                        return


if __name__ == "__main__":
    Harness("C12", "6 curves (staircase with equal heights, bump above the lower hull, hyperbola, non-monotone, uneven spacing, straight line) x interior knee subsets of "
            "2-5 knees x 4 linkages x t in {.05,.2,.3,.6} x 3 ranking modes + hull mode + corner variant; oracle: one-per-cluster and maximal "
            "score with the library's smooth_ranking as primitive, itself checked to be a fit quality in [0,1] (1 on straight data) times the relative height; corner-triangle score from its formula; brute-force lower hull for hull mode", "n <= 14").main(run)
