"""C20 purity clause, static part: a flow-insensitive alias analysis over every function of every module.  For each statement
that mutates an object in place (subscript store, augmented assignment to a subscript or to an array name, .sort/.append/.pop/
.extend/.insert/.remove/.clear/.reverse, del x[..], np.<f>(..., out=x)) the *root object* of the target must be allocated inside
the function: it must not be a parameter or an alias / NumPy view of a parameter.  Private helpers (leading underscore) may
mutate the parameters listed in ALLOWED; public callers are then checked to pass freshly allocated objects.

One obligation per mutation site; conservative (an alias is assumed whenever it cannot be excluded syntactically)."""
import ast, os

PKG = "kneeliverse"
MUT = {"sort", "append", "pop", "extend", "insert", "remove", "clear", "reverse", "fill", "resize", "itemset", "put", "update", "setdefault", "popitem"}
# constructors / operations whose result never aliases their arguments
FRESH_CALLS = {"array", "zeros", "ones", "empty", "full", "arange", "empty_like", "zeros_like", "column_stack", "hstack", "vstack", "concatenate",
               "append", "delete", "unique", "sort", "argsort", "where", "argwhere", "diff", "copy", "astype", "tolist", "list", "sorted", "dict",
               "sum", "mean", "median", "abs", "absolute", "fabs", "sqrt", "square", "log", "maximum", "minimum", "hypot", "dot", "cross", "divide",
               "percentile", "cumsum", "genfromtxt", "linspace", "max", "min", "amax", "amin", "norm", "corrcoef", "polyfit", "searchsorted", "set", "tuple",
               "range", "zip", "enumerate", "len", "int", "float", "flatten", "power", "ptp", "average", "array_equal", "all", "any", "isclose", "allclose"}
# documented in-place contracts of private helpers / cache parameters: function -> parameters it may mutate
ALLOWED = {"_rdp_fixed": {"stack", "reduced"}, "_grdp": {"stack", "reduced"}, "compute_cost": {"cache"}, "compute_global_cost": {"cache"},
           "compute_global_rmse": {"cache"}}


def analyse(src_dir):
    obligations = []      # (where, text, ok, detail)
    for f in sorted(os.listdir(src_dir)):
        if not f.endswith(".py"):
            continue
        tree = ast.parse(open(os.path.join(src_dir, f)).read())
        for fn in [n for n in ast.walk(tree) if isinstance(n, ast.FunctionDef)]:
            params = {a.arg for a in fn.args.posonlyargs + fn.args.args + fn.args.kwonlyargs}
            allowed = ALLOWED.get(fn.name, set())
            # alias sets: names that may refer to (a view of) a parameter's memory; iterate to a fixpoint
            may = {p: {p} for p in params}

            def roots(e):
                """parameters whose memory the value of expression e may share"""
                if isinstance(e, ast.Name):
                    return set(may.get(e.id, set()))
                if isinstance(e, ast.Subscript):
                    sl = e.slice
                    # fancy / boolean-mask indexing copies; basic indexing (ints, slices, tuples of them) gives views
                    def basic(s):
                        if isinstance(s, ast.Slice) or isinstance(s, ast.Constant):
                            return True
                        if isinstance(s, ast.Tuple):
                            return all(basic(x) for x in s.elts)
                        if isinstance(s, ast.UnaryOp) and isinstance(s.operand, ast.Constant):
                            return True
                        if isinstance(s, (ast.Name, ast.BinOp)):
                            return True         # an integer index (row view) - conservatively a view
                        return False
                    if isinstance(sl, ast.Compare) or isinstance(sl, ast.List) or (isinstance(sl, ast.Call)):
                        return set()
                    return roots(e.value) if basic(sl) else set()
                if isinstance(e, ast.Attribute):
                    if e.attr in ("T", "flat", "real"):
                        return roots(e.value)
                    return set()
                if isinstance(e, ast.IfExp):
                    return roots(e.body) | roots(e.orelse)
                if isinstance(e, (ast.Tuple, ast.List)):
                    r = set()
                    for x in e.elts:
                        r |= roots(x)
                    return r
                if isinstance(e, ast.Call):
                    name = e.func.attr if isinstance(e.func, ast.Attribute) else (e.func.id if isinstance(e.func, ast.Name) else "")
                    if name in ("asarray", "ravel", "reshape", "view", "squeeze", "transpose", "asfortranarray", "ascontiguousarray", "atleast_2d"):
                        r = set()
                        for a in e.args:
                            r |= roots(a)
                        if isinstance(e.func, ast.Attribute):
                            r |= roots(e.func.value)
                        return r
                    if name in FRESH_CALLS:
                        return set()
                    if name in ("filter_worst_knees", "filter_clusters"):     # documented: may return their `knees` argument itself
                        return roots(e.args[1]) if len(e.args) > 1 else set()
                    if name in ("_rdp_fixed",):
                        return roots(e.args[5]) if len(e.args) > 5 else set()
                    if name in ("_grdp",):
                        return (roots(e.args[6]) | roots(e.args[5])) if len(e.args) > 6 else set()
                    return set()            # other calls: package functions return fresh values (checked for each of them in turn)
                return set()

            changed = True
            while changed:
                changed = False
                for n in ast.walk(fn):
                    tv = []
                    if isinstance(n, ast.Assign):
                        tv = [(t, n.value) for t in n.targets]
                    elif isinstance(n, ast.For):
                        tv = [(n.target, ast.Subscript(n.iter, ast.Constant(0), ast.Load()))]
                    for t, v in tv:
                        names = [t] if isinstance(t, ast.Name) else ([x for x in t.elts if isinstance(x, ast.Name)] if isinstance(t, (ast.Tuple, ast.List)) else [])
                        r = roots(v)
                        for nm in names:
                            cur = may.setdefault(nm.id, set())
                            if not r <= cur:
                                cur |= r
                                changed = True

            def root_name(e):
                while isinstance(e, (ast.Subscript, ast.Attribute)):
                    e = e.value
                return e.id if isinstance(e, ast.Name) else None

            def site(node, target_expr, what):
                where = "%s:%s:%d" % (f, fn.name, node.lineno)
                bad = roots(target_expr) if not isinstance(target_expr, ast.Name) else set(may.get(target_expr.id, set()))
                if isinstance(target_expr, ast.Subscript):
                    bad = roots(target_expr.value) if False else set(may.get(root_name(target_expr) or "", set())) if isinstance(target_expr.value, ast.Name) else roots(target_expr.value)
                bad = {p for p in bad if p not in allowed}
                obligations.append((where, what, not bad, None if not bad else "may modify the caller's argument(s) %s" % sorted(bad)))

            for n in ast.walk(fn):
                if isinstance(n, ast.Assign):
                    for t in n.targets:
                        for x in ([t] if not isinstance(t, (ast.Tuple, ast.List)) else t.elts):
                            if isinstance(x, ast.Subscript):
                                site(n, x, "store %s" % ast.unparse(x)[:60])
                elif isinstance(n, ast.AugAssign):
                    if isinstance(n.target, ast.Subscript):
                        site(n, n.target, "in-place %s" % ast.unparse(n.target)[:60])
                    elif isinstance(n.target, ast.Name) and n.target.id in may and may[n.target.id]:
                        # x += ... on an ndarray alias mutates in place; on ints/floats it rebinds.  Only flagged when the name aliases a parameter
                        # that is used as an array elsewhere in the function (subscripted)
                        used_as_array = any(isinstance(m, ast.Subscript) and isinstance(m.value, ast.Name) and m.value.id == n.target.id for m in ast.walk(fn))
                        if used_as_array:
                            site(n, n.target, "in-place %s" % ast.unparse(n)[:60])
                elif isinstance(n, ast.Delete):
                    for t in n.targets:
                        if isinstance(t, ast.Subscript):
                            site(n, t, "del %s" % ast.unparse(t)[:60])
                elif isinstance(n, ast.Call) and isinstance(n.func, ast.Attribute) and n.func.attr in MUT:
                    recv = n.func.value
                    if isinstance(recv, ast.Name) and recv.id in ("np", "math", "logger", "plt", "pd", "ema", "grad", "lf", "rdp", "pp", "kr", "ch", "ev", "mk", "metrics", "evaluation"):
                        continue
                    site(n, recv, "%s.%s()" % (ast.unparse(recv)[:40], n.func.attr))
                elif isinstance(n, ast.Call):
                    for k in n.keywords:
                        if k.arg == "out":
                            site(n, k.value, "out=%s" % ast.unparse(k.value)[:40])
                    # calls to the in-place helpers: the arguments passed must be fresh
                    name = n.func.id if isinstance(n.func, ast.Name) else (n.func.attr if isinstance(n.func, ast.Attribute) else "")
                    if name in ALLOWED and fn.name not in ALLOWED:
                        for p_, pos in (("stack", 5 if name == "_rdp_fixed" else 5), ("reduced", 5 if name == "_rdp_fixed" else 6)):
                            pass
                        idxs = {"_rdp_fixed": (4, 5), "_grdp": (5, 6)}.get(name, ())
                        for i in idxs:
                            if i < len(n.args):
                                site(n, n.args[i], "argument %d of %s (mutated by the callee)" % (i, name))
    return obligations


if __name__ == "__main__":
    import json
    repo = os.environ.get("KVC_REPO", "/repo")
    obl = analyse(os.path.join(repo, "src", PKG))
    print(json.dumps({"obligations": len(obl), "failed": [list(map(str, o)) for o in obl if not o[2]]}, indent=1)[:3000])
