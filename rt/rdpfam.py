"""Shared oracles of the bounded layers of the RDP family (C01, C04, C05, C06).

The oracles are written from the property statements and use only the library's own *primitives*
(linear fit, cost metric, distance to chord, ordering score, global cost) on explicit index ranges -
never the simplifiers' control flow."""
import itertools
import numpy as np
import kneeliverse.rdp as rdp
import kneeliverse.linear_fit as lf
import kneeliverse.metrics as metrics
import kneeliverse.evaluation as evaluation
from rt.common import curve, guarded, Timeout

EPS = np.finfo(float).eps
DIST = {rdp.Distance.shortest: lambda p, a, b: lf.shortest_distance_points(p, a, b),
        rdp.Distance.perpendicular: lambda p, a, b: lf.perpendicular_distance_points(p, a, b)}
METRICS = list(metrics.Metrics)
ORDERS = list(rdp.Order)
DISTS = list(rdp.Distance)


def extra_curves(rng):
    out = []
    # exactly repeated bumps: ties in every ordering score
    y = 100 - np.array([0, 3, 4, 4.5, 4.5, 7.5, 8.5, 9.0])
    out.append(("bumps-8", curve(np.arange(8), y)))
    y = np.tile([10.0, 4.0, 6.0, 4.0], 4)[:13]
    out.append(("zigzag-13", curve(np.arange(13), y)))
    out.append(("ramp-2.5-5", curve(np.arange(1, 6), 2.5 * np.arange(1, 6))))
    out.append(("knee-then-ramp", curve(np.arange(1, 9), [30, 12, 2.5, 5, 7.5, 10, 12.5, 15])))
    out.append(("to-zero-6", curve([1, 2, 3, 4, 5, 6], [9.3, 4.1, 1.7, 0.9, 0.3, 0.0])))
    out.append(("two-pt-zero", curve([5, 6], [0.3, 0.0])))
    out.append(("nonmono-8", curve(np.arange(8), [29, 20, 13, 16, 26, 11, 18, 21])))
    out.append(("small-4", curve([0, 1, 2, 3], [1, 2, 2, 1])))
    out.append(("collinear-run-5", curve([1, 2, 3, 4, 5], [100, 97, 94, 91, 90.5])))
    xs = np.arange(1, 41, dtype=float)
    out.append(("hyper-40", curve(xs, 100.0 / xs + 5)))
    out.append(("exp-30", curve(np.arange(30), 1000 * np.exp(-np.arange(30) / 4.0))))
    return out


def accept(cost, r, t):
    """accepting side of t, copied from the statements of C04/C06"""
    return r >= t if cost is metrics.Metrics.r2 else r < t


def seg_cost(points, l, r, cost):
    """endpoint-line cost of points[l:r] by the library's primitives (<= 2 points: 0, or 1 for R2)"""
    pt = points[l:r]
    if len(pt) <= 2:
        return 1.0 if cost is metrics.Metrics.r2 else 0.0
    return rdp.compute_cost_coef(pt, lf.linear_fit_points(pt), cost)


def split_of(points, l, r, distance):
    pt = points[l:r]
    d = DIST[distance](pt, pt[0], pt[-1])
    return int(np.argmax(d[1:-1])) + 1, d


def rdp_partition(points, t, distance, cost, cap=100000):
    """the recursive Ramer-Douglas-Peucker partition of the statement of C04"""
    out = []
    steps = [0]

    def rec(l, r):
        steps[0] += 1
        if steps[0] > cap:
            raise RuntimeError("oracle recursion exceeded cap")
        if accept(cost, seg_cost(points, l, r, cost), t):
            out.append(l)
            return
        s, _ = split_of(points, l, r, distance)
        rec(l, l + s + 1)
        rec(l + s, r)
    rec(0, len(points))
    out.append(len(points) - 1)
    return out


def well_formed(points, reduced, removed):
    """C01 (W) and (R); returns an error string or None"""
    n = len(points)
    red = np.asarray(reduced)
    if red.ndim != 1 or len(red) < 2:
        return "reduced has fewer than 2 entries: %s" % red.tolist()
    if red[0] != 0 or red[-1] != n - 1:
        return "reduced does not start at 0 / end at n-1: %s" % red.tolist()
    if not np.all(np.diff(red) > 0):
        return "reduced is not strictly increasing: %s" % red.tolist()
    rem = np.asarray(removed)
    if rem.shape != (len(red) - 1, 2):
        return "removed table has shape %s for %d retained points" % (rem.shape, len(red))
    for k in range(len(red) - 1):
        if rem[k][0] != red[k] or rem[k][1] != red[k + 1] - red[k] - 1:
            return "removed row %d is %s, expected [%d, %d]" % (k, rem[k].tolist(), red[k], red[k + 1] - red[k] - 1)
    if len(red) + int(rem[:, 1].sum()) != n:
        return "retained + dropped != n"
    return None


class StepCounter:
    """counts refinement steps of the simplifiers by instrumenting the distance primitives (monkey-patched module
    attributes, restored afterwards); aborts a run that exceeds the linear bound"""

    class TooMany(Exception):
        pass

    def __init__(self, bound):
        self.bound = bound
        self.calls = 0

    def __enter__(self):
        self.orig = (lf.shortest_distance_points, lf.perpendicular_distance_points)
        outer = self

        def wrap(f):
            def g(*a, **k):
                outer.calls += 1
                if outer.calls > outer.bound:
                    raise StepCounter.TooMany()
                return f(*a, **k)
            return g
        lf.shortest_distance_points = wrap(self.orig[0])
        lf.perpendicular_distance_points = wrap(self.orig[1])
        return self

    def __exit__(self, *a):
        lf.shortest_distance_points, lf.perpendicular_distance_points = self.orig
        return False


def run_simplifier(f, pts, *args, **kw):
    """-> ('ok', (reduced, removed), steps) | ('nonterm', msg) | ('raise', msg)"""
    n = len(pts)
    bound = 3 * (2 * n + 4) * 8      # every loop iteration calls a distance primitive at most 3 times; <= 2n iterations per pass, <= 8 passes
    try:
        with StepCounter(bound) as sc:
            res = guarded(f, pts, *args, limit=60, **kw)
        return "ok", res, sc.calls
    except StepCounter.TooMany:
        return "nonterm", "more than %d distance evaluations for n=%d (refinement steps not linearly bounded)" % (bound, n), None
    except Timeout:
        return "nonterm", "no result within 60 s for n=%d" % n, None
    except Exception as e:
        return "raise", "%s: %s" % (type(e).__name__, e), None


def score(points, l, r, distance, order):
    """ordering score of the retained segment points[l:r] (a function of the segment alone)"""
    pt = points[l:r]
    if order is rdp.Order.triangle:
        base = np.linalg.norm(pt[0] - pt[-1])
        return 0.5 * base * DIST[distance](pt, pt[0], pt[-1]).max()
    if order is rdp.Order.area:
        return np.sum(DIST[distance](pt, pt[0], pt[-1]))
    return lf.linear_fit_residuals_points(pt)


def fixed_sequence(points, distance, order):
    """S_2, S_3, ..., S_n by the library's rdp_fixed"""
    n = len(points)
    seq = {}
    for k in range(2, n + 1):
        red, _ = rdp.rdp_fixed(points, k, distance, order)
        seq[k] = [int(v) for v in red]
    return seq
