"""Replay a counter-model of a failed obligation on the real function, under the
runtime-checked contract.  usage: replay.py in.json out.json   (under /venv/bin/python)"""
import copy
import importlib
import json
import signal
import sys
import traceback
from fractions import Fraction

import numpy as np

from rt import speceval


def shape_parse(s):
    s = s.replace(" ", "")
    pos = [0]

    def parse():
        j = pos[0]
        while j < len(s) and (s[j].isalnum() or s[j] in "._"):
            j += 1
        w = s[pos[0]:j]
        pos[0] = j
        args = []
        if j < len(s) and s[j] == "[":
            pos[0] += 1
            if w in ("Enum", "Opaque"):
                k = s.index("]", pos[0])
                nm = s[pos[0]:k]
                pos[0] = k + 1
                return (w, nm)
            while True:
                args.append(parse())
                c = s[pos[0]]
                pos[0] += 1
                if c == "]":
                    break
        return (w, args)
    return parse()


def num(v):
    if isinstance(v, dict) and "num" in v:
        return float(Fraction(int(v["num"]), int(v["den"])))
    return v


def build(sh, v, aslist=False):
    kind = sh[0]
    if kind == "Int":
        return int(num(v))
    if kind == "Real":
        return float(num(v))
    if kind == "Bool":
        return bool(v)
    if kind == "Enum":
        mod, cls = sh[1].rsplit(".", 1)
        return getattr(getattr(importlib.import_module(mod), cls), v["member"])
    if kind == "Fn":
        q = v["fn"]
        mod, fn = q.rsplit(".", 1)
        return getattr(importlib.import_module(mod), fn)
    if kind == "Tup":
        return tuple(build(a, x) for a, x in zip(sh[1], v))
    if kind == "Opt":
        return None if v is None else build(sh[1][0], v)
    if kind == "Seq":
        esh = sh[1][0]
        items = v["seq"]
        if v["len"] > len(items):
            raise ValueError("model sequence longer than the projection limit")
        if aslist:
            return [build(esh, x) for x in items]
        if esh[0] == "Tup":
            k = len(esh[1])
            isint = all(a[0] == "Int" for a in esh[1])
            arr = np.array([[num(c) for c in row] for row in items], dtype=int if isint else float)
            return arr.reshape((len(items), k))
        return np.array([num(x) for x in items], dtype=int if esh[0] == "Int" else (bool if esh[0] == "Bool" else float))
    raise ValueError("cannot build %r (dictionary parameters are not projected from counter-models: not replayable)" % (sh,))


class Timeout(Exception):
    pass


def _alarm(*a):
    raise Timeout()


def main():
    req = json.load(open(sys.argv[1]))
    key = req["key"]
    out = {"violates": False}
    try:
        reg = {}
        import pkgutil, contracts
        for m in pkgutil.iter_modules(contracts.__path__):
            reg.update(importlib.import_module("contracts." + m.name).C)
        c = reg[key]
        qual = c.get("function", key.split("#")[0])
        mod, fn = qual.rsplit(".", 1)
        f = getattr(importlib.import_module(mod), fn)
        args = {}
        for p, shs in c["params"].items():
            args[p] = build(shape_parse(shs), req["args"][p], aslist=p in c.get("list_params", ()))
        out["input"] = {p: (v.tolist() if isinstance(v, np.ndarray) else repr(v)) for p, v in args.items()}
        # contract clauses may name what the function's own module names (enum classes, import aliases such as `metrics`)
        modns = {k_: v_ for k_, v_ in vars(importlib.import_module(mod)).items() if not k_.startswith("__")}
        failed, skipped_req = speceval.check_clauses(c.get("requires", []), dict(modns, **args))
        if skipped_req and not failed:
            out["outcome"] = "%d precondition clause(s) cannot be evaluated on a concrete input (ghost state / dictionaries): the counter-model is not counted as a failing input" % skipped_req
        elif failed:
            out["outcome"] = "counter-model is not a valid input after conversion to doubles (requires fails: %s)" % failed[0]
        else:
            old = copy.deepcopy(args)
            signal.signal(signal.SIGALRM, _alarm)
            signal.alarm(60)
            try:
                res = f(**args)
                signal.alarm(0)
                env = dict(modns, **args)
                env["result"] = res
                failed, skipped = speceval.check_clauses(c.get("ensures", []), env, old)
                for p_ in args:
                    if p_ in c.get("modifies", []):
                        continue
                    a0, a1 = old[p_], args[p_]
                    same = np.array_equal(np.asarray(a0), np.asarray(a1)) if isinstance(a0, (np.ndarray, list)) else True
                    if not same:
                        failed.append("frame: argument '%s' is not modified (was %r, now %r)" % (p_, np.asarray(a0).tolist(), np.asarray(a1).tolist()))
                out["result"] = res.tolist() if isinstance(res, np.ndarray) else repr(res)
                if failed:
                    out["violates"] = True
                    out["outcome"] = "real function violates postcondition: " + failed[0]
                else:
                    out["outcome"] = "real function satisfies the contract on the counter-model input (abstract-state counterexample)"
            except Timeout:
                out["violates"] = True
                out["outcome"] = "real function did not return within 60 s"
            except Exception as e:
                signal.alarm(0)
                out["violates"] = True
                out["outcome"] = "real function raises %s: %s" % (type(e).__name__, e)
    except Exception:
        out["outcome"] = "replay harness error"
        out["detail"] = traceback.format_exc()[-2000:]
    json.dump(out, open(sys.argv[2], "w"), indent=1, default=str)


main()
