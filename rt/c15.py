"""C15 bounded layer: global reconstruction cost against its definition (exact rationals), cache transparency over query
sequences, global RMSE against linear interpolation, MIP as a median of RMSE increases."""
import itertools, math
from fractions import Fraction as F
import numpy as np
import kneeliverse.evaluation as ev
import kneeliverse.metrics as metrics
from rt.common import Harness, family_curves, subsets_with_ends, curve
from rt.rdpfam import extra_curves

EPS = F(1, 10 ** 16)
MET = list(metrics.Metrics)


def interp(pts, l, r, i):
    """value at x_i of the line through points l and r (exact)"""
    x0, y0, x1, y1, x = F(float(pts[l][0])), F(float(pts[l][1])), F(float(pts[r][0])), F(float(pts[r][1])), F(float(pts[i][0]))
    m = (y0 - y1) / (x0 - x1)
    b = y0 - m * x0
    return x * m + b


def seg_err(pts, l, r, cost):
    """metric accumulated over the points l..r (both ends included) of one segment; <= 2 points contribute 0"""
    if r - l + 1 <= 2:
        return F(0) if cost is not metrics.Metrics.rmsle else 0.0
    tot = F(0) if cost is not metrics.Metrics.rmsle else 0.0
    for i in range(l, r + 1):
        y, yh = F(float(pts[i][1])), interp(pts, l, r, i)
        if cost is metrics.Metrics.r2:
            tot += (y - yh) ** 2
        elif cost is metrics.Metrics.rmsle:
            tot += (math.log(float(y) + 1) - math.log(float(yh) + 1)) ** 2
        elif cost is metrics.Metrics.rmspe:
            tot += ((y - yh) / (y + EPS)) ** 2
        elif cost is metrics.Metrics.rpd:
            tot += abs((y - yh) / (max(y, yh) + EPS))
        else:
            tot += 2 * abs(yh - y) / (abs(y) + abs(yh) + EPS)
    return tot


def gc_oracle(pts, S, cost):
    n = len(pts)
    errs = [seg_err(pts, S[k], S[k + 1], cost) for k in range(len(S) - 1)]
    total = n + len(S) - 2          # every interior breakpoint counted once per adjoining segment
    s = sum(errs) if cost is not metrics.Metrics.rmsle else math.fsum(errs)
    if cost is metrics.Metrics.r2:
        ys = [F(float(p[1])) for p in pts]
        ym = sum(ys) / n
        tss = sum((y - ym) ** 2 for y in ys)
        v = 1 - s if tss == 0 else 1 - s / tss
        return float(max(v, 0))
    if cost in (metrics.Metrics.rmsle, metrics.Metrics.rmspe):
        return math.sqrt(s / total)
    return float(s / total)


def close(a, b, rel=1e-8):
    return abs(a - b) <= 1e-12 + rel * max(abs(a), abs(b))


def check_def(H, name, pts, S, c):
    inp = {"curve": name, "points": pts, "S": list(S), "cost": str(c)}
    H.case((name, tuple(S), str(c)), nontrivial=len(S) < len(pts), sample={"curve": name, "S": list(S), "cost": str(c)})
    P = np.array(pts, dtype=float)
    if c in (metrics.Metrics.rmspe, metrics.Metrics.rpd, metrics.Metrics.smape):
        # relative metrics with the 1e-16 guard are discontinuous at y = 0: a rounding error of one ulp in the interpolated value
        # changes the term by O(1).  Such points make the comparison with the exact definition meaningless; they are skipped (counted).
        for k in range(len(S) - 1):
            if S[k + 1] - S[k] + 1 > 2 and any(abs(pts[i][1]) < 1e-9 for i in range(S[k], S[k + 1] + 1)):
                H.note("skipped: relative metric on a segment containing y = 0 (ill-conditioned under the eps guard)")
                return
    try:
        got = float(ev.compute_global_cost(P, np.array(S), c))
    except Exception as e:
        H.violation("compute_global_cost(%s, %s) on %s raised %s: %s" % (list(S), c, name, type(e).__name__, e), inp, clause="completes")
        return
    want = gc_oracle(pts, S, c)
    if not close(got, want) or got < 0:
        H.violation("compute_global_cost(S=%s, %s) on %s = %r, definition gives %r" % (list(S), c, name, got, want), inp, clause="definition")
        return
    if len(S) == len(pts):
        exp = 1.0 if c is metrics.Metrics.r2 else 0.0
        if got != exp:
            H.violation("all points are breakpoints but cost(%s) = %r" % (c, got), inp, clause="all-breakpoints")


def check_cache(H, name, pts, seqS, c):
    P = np.array(pts, dtype=float)
    inp = {"curve": name, "points": pts, "sequence": [list(s) for s in seqS], "cost": str(c)}
    H.case((name, "seq", tuple(map(tuple, seqS)), str(c)))
    cache = {}
    for S in seqS:
        shared = ev.compute_global_cost(P, np.array(S), c, cache)
        fresh = ev.compute_global_cost(P, np.array(S), c, {})
        none = ev.compute_global_cost(P, np.array(S), c)
        if not (shared == fresh == none) and not (math.isnan(shared) and math.isnan(fresh)):
            H.violation("cache transparency: S=%s (%s) on %s after %d earlier queries: shared cache %r, fresh cache %r, no cache %r" % (
                list(S), c, name, seqS.index(S), shared, fresh, none), inp, clause="cache")
            return
    cache = {}
    for S in seqS:
        a = ev.compute_global_rmse(P, np.array(S), cache)
        b = ev.compute_global_rmse(P, np.array(S))
        if a != b:
            H.violation("compute_global_rmse depends on the shared cache: %r vs %r for S=%s" % (a, b, list(S)), inp, clause="cache-rmse")
            return


def check_rmse_mip(H, name, pts, S):
    P = np.array(pts, dtype=float)
    n = len(pts)
    inp = {"curve": name, "points": pts, "S": list(S)}
    H.case((name, "rmse", tuple(S)))

    def rm(S):
        tot = F(0)
        for k in range(len(S) - 1):
            for i in range(S[k], S[k + 1] + 1 if k == len(S) - 2 else S[k + 1]):
                tot += (F(float(pts[i][1])) - interp(pts, S[k], S[k + 1], i)) ** 2
        return math.sqrt(tot / n)
    got = float(ev.compute_global_rmse(P, np.array(S)))
    want = rm(S)
    if not close(got, want):
        H.violation("compute_global_rmse(S=%s) on %s = %r, RMSE against linear interpolation is %r" % (list(S), name, got, want), inp, clause="global-rmse")
        return
    if len(S) >= 3:
        m, _ = ev.mip(P, np.array(S))
        incs = sorted(rm([v for j, v in enumerate(S) if j != i]) - want for i in range(1, len(S) - 1))
        k = len(incs)
        med = incs[k // 2] if k % 2 else (incs[k // 2 - 1] + incs[k // 2]) / 2
        if not close(float(m), med, rel=1e-6):
            H.violation("mip(S=%s) on %s = %r, median RMSE increase over interior breakpoints is %r" % (list(S), name, float(m), med), inp, clause="mip")


def run(H, tier, rng):
    curves = [(nm, p) for nm, p in family_curves(tier, rng, nmax=9) + extra_curves(rng) if 3 <= len(p) <= 12 and np.all(p[:, 1] >= 0)]
    curves = [(nm, p) for nm, p in curves if not nm.startswith(("huge", "tiny"))]
    for name, P in curves:
        pts = P.tolist()
        n = len(pts)
        subs = list(subsets_with_ends(n))
        if len(subs) > 40 and tier == "quick":
            subs = rng.sample(subs, 38) + [[0, n - 1], list(range(n))]
        for S in subs:
            for c in MET:
                check_def(H, name, pts, S, c)
            if rng.random() < 0.3:
                check_rmse_mip(H, name, pts, S)
            if len(H.violations) >= 20:
                return
        for _ in range(4 if tier == "quick" else 30):
            seqS = [rng.choice(subs) for _ in range(rng.randint(2, 6))]
            seqS = [[0, n - 1]] + seqS + [[0, n - 1]]
            for c in MET:
                check_cache(H, name, pts, seqS, c)
        grow = [[0, n - 1]]
        for v in rng.sample(range(1, n - 1), n - 2):
            grow.append(sorted(grow[-1] + [v]))
        for c in MET:
            check_cache(H, name, pts, grow + grow[::-1], c)


if __name__ == "__main__":
    Harness("C15", "performance curves with 3..12 points x all breakpoint subsets containing both ends (sampled to 40 per curve in quick) x 5 metrics "
            "against the definition in exact rational arithmetic; query sequences (random, grow-then-shrink) sharing one cache compared bit-for-bit "
            "with fresh/no cache; global RMSE vs linear interpolation; MIP vs the median of RMSE increases", "n <= 12").main(run)
