"""C20 layer: (1) linking - static, exhaustive over all code paths (rt/c20_link.py); (2) purity, determinism and layout / dtype
independence - metamorphic execution of the public functions on C / Fortran / strided-view / int64 / float64 variants (bounded)."""
import copy, os, warnings
import numpy as np
import kneeliverse.rdp as rdp
import kneeliverse.linear_fit as lf
import kneeliverse.metrics as metrics
import kneeliverse.evaluation as ev
import kneeliverse.curvature as curvature
import kneeliverse.dfdt as dfdt
import kneeliverse.menger as menger
import kneeliverse.lmethod as lmethod
import kneeliverse.kneedle as kneedle
import kneeliverse.zmethod as zmethod
import kneeliverse.clustering as cl
import kneeliverse.postprocessing as pp
import kneeliverse.knee_ranking as kr
import kneeliverse.convex_hull as ch
from rt.common import Harness, guarded, Timeout, tolist
from rt import c20_link, c20_frame

warnings.filterwarnings("ignore")


def variants(A, ints):
    A = np.asarray(A)
    out = [("C-float64", np.ascontiguousarray(A, dtype=float)), ("F-float64", np.asfortranarray(A.astype(float)))]
    big = np.zeros((2 * len(A),) + A.shape[1:], dtype=float)
    big[::2] = A
    out.append(("view-float64", big[::2]))
    if ints:
        out.append(("C-int64", np.ascontiguousarray(A, dtype=np.int64)))
        out.append(("F-int64", np.asfortranarray(A.astype(np.int64))))
    return out


def same(a, b, tol=1e-12):
    if isinstance(a, (tuple, list)) and isinstance(b, (tuple, list)):
        return len(a) == len(b) and all(same(x, y, tol) for x, y in zip(a, b))
    if a is None or b is None:
        return a is None and b is None
    if isinstance(a, dict) and isinstance(b, dict):
        return a.keys() == b.keys() and all(same(a[k], b[k], tol) for k in a)
    try:
        x, y = np.asarray(a, dtype=float), np.asarray(b, dtype=float)
    except Exception:
        return a == b
    if x.shape != y.shape:
        return False
    return bool(np.all((np.abs(x - y) <= tol * np.maximum(1.0, np.maximum(np.abs(x), np.abs(y)))) | (np.isnan(x) & np.isnan(y))))


def registry():
    K = lambda: np.array([2, 5, 8])
    R = lambda: np.array([0, 3, 6, 9, 12])
    calls = {
        "rdp.rdp": lambda P: rdp.rdp(P, 0.05), "rdp.rdp[perp,r2]": lambda P: rdp.rdp(P, 0.9, rdp.Distance.perpendicular, metrics.Metrics.r2),
        "rdp.rdp_fixed[triangle]": lambda P: rdp.rdp_fixed(P, 5, rdp.Distance.shortest, rdp.Order.triangle),
        "rdp.rdp_fixed[area,perp]": lambda P: rdp.rdp_fixed(P, 6, rdp.Distance.perpendicular, rdp.Order.area),
        "rdp.rdp_fixed[segment]": lambda P: rdp.rdp_fixed(P, 4),
        "rdp.grdp": lambda P: rdp.grdp(P, 0.02), "rdp.grdp[triangle,rpd]": lambda P: rdp.grdp(P, 0.01, rdp.Distance.shortest, metrics.Metrics.rpd, rdp.Order.triangle),
        "rdp.grdp[area]": lambda P: rdp.grdp(P, 0.01, rdp.Distance.perpendicular, metrics.Metrics.smape, rdp.Order.area),
        "rdp.mp_grdp": lambda P: rdp.mp_grdp(P, 0.05, 6), "rdp.mp_grdp[area]": lambda P: rdp.mp_grdp(P, 0.05, 6, rdp.Distance.shortest, metrics.Metrics.smape, rdp.Order.area),
        "rdp.min_point_rdp": lambda P: rdp.min_point_rdp(P, [0.001, 0.01, 0.0001], 5),
        "rdp.compute_removed_points": lambda P: rdp.compute_removed_points(P, R()),
        "rdp.mapping": lambda P: rdp.mapping(np.array([1, 3]), R(), rdp.compute_removed_points(P, R())),
        "lf.linear_fit_points": lambda P: lf.linear_fit_points(P), "lf.linear_r2_points": lambda P: lf.linear_r2_points(P, lf.linear_fit_points(P)),
        "lf.smape_points": lambda P: lf.smape_points(P, (1.0, 0.5)), "lf.rpd_points": lambda P: lf.rpd_points(P, (1.0, 0.5)),
        "lf.rmspe_points": lambda P: lf.rmspe_points(P, (1.0, 0.5)), "lf.rmsle_points": lambda P: lf.rmsle_points(P, (1.0, 0.5)),
        "lf.rmse_points": lambda P: lf.rmse_points(P, (1.0, 0.5)), "lf.linear_residuals_points": lambda P: lf.linear_residuals_points(P, (1.0, 0.5)),
        "lf.linear_fit_residuals_points": lambda P: lf.linear_fit_residuals_points(P), "lf.linear_hv_residuals_points": lambda P: lf.linear_hv_residuals_points(P),
        "lf.linear_fit_transform_points": lambda P: lf.linear_fit_transform_points(P), "lf.r2_points": lambda P: lf.r2_points(P),
        "lf.r2[adjusted]": lambda P: lf.r2(P[:, 0], P[:, 1], metrics.R2.adjusted),
        "lf.shortest_distance_points": lambda P: lf.shortest_distance_points(P, P[0], P[-1]),
        "lf.perpendicular_distance_points": lambda P: lf.perpendicular_distance_points(P, P[0], P[-1]),
        "lf.perpendicular_distance": lambda P: lf.perpendicular_distance(P), "lf.perpendicular_distance_index": lambda P: lf.perpendicular_distance_index(P, 2, 9),
        "metrics.all": lambda P: [f(P[:, 1], P[::-1, 1]) for f in (metrics.r2, metrics.rmse, metrics.rmsle, metrics.rmspe, metrics.rpd, metrics.smape, metrics.residuals)],
        "curvature.knee": lambda P: curvature.knee(P), "curvature.multi_knee": lambda P: curvature.multi_knee(P),
        "dfdt.knee": lambda P: dfdt.knee(P), "dfdt.multi_knee": lambda P: dfdt.multi_knee(P), "dfdt.get_knee": lambda P: dfdt.get_knee(P[:, 0], P[:, 1]),
        "menger.knee": lambda P: menger.knee(P), "menger.multi_knee": lambda P: menger.multi_knee(P),
        "lmethod.knee": lambda P: lmethod.knee(P), "lmethod.knee[best,original]": lambda P: lmethod.knee(P, lmethod.Fit.best_fit, lmethod.Refinement.original, 5),
        "lmethod.multi_knee": lambda P: lmethod.multi_knee(P), "lmethod.get_knee": lambda P: lmethod.get_knee(P[:, 0], P[:, 1])[0],
        "kneedle.knee": lambda P: kneedle.knee(P), "kneedle.knee[t=0]": lambda P: kneedle.knee(P, 0.0), "kneedle.knees": lambda P: kneedle.knees(P),
        "kneedle.multi_knee": lambda P: kneedle.multi_knee(P),
        "zmethod.knees": lambda P: zmethod.knees(P), "zmethod.knees2": lambda P: zmethod.knees2(P),
        "clustering.all": lambda P: [f(P, 0.1) for f in (cl.single_linkage, cl.complete_linkage, cl.centroid_linkage, cl.average_linkage)],
        "pp.filter_worst_knees": lambda P: pp.filter_worst_knees(P, K()), "pp.filter_corner_knees": lambda P: pp.filter_corner_knees(P, K()),
        "pp.select_corner_knees": lambda P: pp.select_corner_knees(P, K(), 0.1),
        "pp.filter_clusters[linear]": lambda P: pp.filter_clusters(P, K(), cl.average_linkage, 0.3, kr.ClusterRanking.linear),
        "pp.filter_clusters[hull]": lambda P: pp.filter_clusters(P, K(), cl.single_linkage, 0.3, kr.ClusterRanking.hull),
        "pp.filter_clusters_corners": lambda P: pp.filter_clusters_corners(P, K(), cl.complete_linkage, 0.3),
        "pp.add_points_even": lambda P: pp.add_points_even(P, R(), np.array([1, 3]), rdp.compute_removed_points(P, R()), 0.05, 0.05, True),
        "pp.add_points_even_knees": lambda P: pp.add_points_even_knees(P, K(), 0.05, 0.05, True),
        "pp.rank_corners": lambda P: (pp.rank_corners(P, K()), pp.rank_corners_triangle(P, K()), pp.triangle_area(P[:3])),
        "kr.smooth_ranking": lambda P: [kr.smooth_ranking(P, K(), m) for m in (kr.ClusterRanking.left, kr.ClusterRanking.linear, kr.ClusterRanking.right)],
        "kr.slope_ranking": lambda P: kr.slope_ranking(P, K()), "kr.rank": lambda P: kr.rank(P[:, 1]), "kr.distances": lambda P: kr.distances(P[3], P),
        "kr.rect_overlap": lambda P: kr.rect_overlap(*kr.rect(P[0], P[3]), *kr.rect(P[1], P[5])),
        "ch.graham_scan": lambda P: ch.graham_scan(P), "ch.graham_scan_lower": lambda P: ch.graham_scan_lower(P), "ch.graham_scan_upper": lambda P: ch.graham_scan_upper(P),
        "ev.cm+scores": lambda P: (lambda c: (c, ev.accuracy(c), ev.f1score(c), ev.mcc(c)))(ev.cm(P, K(), P[[2, 6]], 0.05)),
        "ev.errors": lambda P: [f(P, K(), P[[2, 6]] + 0.0, s) for f in (ev.mae, ev.mse, ev.rmse, ev.rmspe) for s in ev.Strategy],
        "ev.compute_global_cost": lambda P: [ev.compute_global_cost(P, R(), c) for c in metrics.Metrics],
        "ev.compute_global_rmse+mip": lambda P: (ev.compute_global_rmse(P, R()), ev.mip(P, R())),
        "ev.get_neighbourhood": lambda P: (ev.get_neighbourhood_points(P, 9, 2, 0.9), ev.get_neighbourhood_fast_points(P, 9, 2, 0.9)),
        "ev.accuracy_knee/trace": lambda P: (ev.accuracy_knee(P, K()), ev.accuracy_trace(P, K())),
    }
    return calls


def curves():
    yi = [33, 29, 29, 25, 23, 18, 18, 16, 15, 12, 9, 4, 3]
    out = [("int-13", np.column_stack((np.arange(13), yi)), True),
           ("int-steep-13", np.column_stack((np.arange(1, 14) * 2, [400, 200, 120, 80, 60, 45, 36, 30, 26, 22, 20, 18, 17])), True),
           ("float-13", np.column_stack((np.arange(13) * 0.5 + 0.25, 10.0 / (1 + 0.7 * np.arange(13)) + 0.125)), False)]
    return out


def run(H, tier, rng):
    # ---- (1) linking: static
    repo = os.environ.get("KVC_REPO", "/repo")
    obl = c20_link.analyse(os.path.join(repo, "src", "kneeliverse"))
    H.notes["link_obligations"] = len(obl)
    H.notes["link_discharged"] = sum(1 for o in obl if o[3])
    for kind, where, text, ok, detail in obl:
        if not ok:
            f, fn, line = where.split(":")
            H.violation("linking: %s %s at %s - %s" % (kind, text, where, detail), {"kind": kind, "where": where, "text": text},
                        witness_id="link:%s:%s:%s" % (f, fn, text), clause="linking")
    H.case(("link", len(obl)), sample={"linking_obligations": len(obl)})
    # ---- (1b) purity, static part: every in-place mutation site has a root object allocated inside the function
    fobl = c20_frame.analyse(os.path.join(repo, "src", "kneeliverse"))
    H.notes["frame_obligations"] = len(fobl)
    H.notes["frame_discharged"] = sum(1 for o in fobl if o[2])
    for where, text, ok, detail in fobl:
        if not ok:
            f, fn, line = where.split(":")
            H.violation("purity (static): %s at %s - %s" % (text, where, detail), {"where": where, "text": text},
                        witness_id="frame:%s:%s:%s" % (f, fn, text), clause="purity-static")
    H.case(("frame", len(fobl)), sample={"frame_obligations": len(fobl)})
    # ---- (2) purity / determinism / layout and dtype independence
    calls = registry()
    for cname, A, ints in curves():
        ref = {}
        for vname, P in variants(A, ints):
            for label, f in calls.items():
                if tier == "quick" and rng.random() < 0.0:
                    continue
                H.case((cname, vname, label), sample={"curve": cname, "variant": vname, "call": label})
                before = P.copy()
                try:
                    r1 = guarded(f, P, limit=60)
                    r2 = guarded(f, P, limit=60)
                except Timeout:
                    H.violation("%s on %s/%s did not return" % (label, cname, vname), {"call": label, "curve": cname, "variant": vname}, clause="completes")
                    continue
                except (NameError, AttributeError) as e:
                    H.violation("%s on %s/%s raised %s: %s" % (label, cname, vname, type(e).__name__, e), {"call": label, "curve": cname, "variant": vname}, clause="linking-dynamic")
                    continue
                except TypeError as e:
                    if "argument" in str(e) or "positional" in str(e):
                        H.violation("%s on %s/%s raised TypeError: %s" % (label, cname, vname, e), {"call": label, "curve": cname, "variant": vname}, clause="arity")
                    else:
                        e_ = e
                        if label in ref and not isinstance(ref[label][1], BaseException):
                            H.violation("%s on %s: %s returns a value but %s raises TypeError: %s" % (label, cname, ref[label][0], vname, e_), {"call": label, "curve": cname, "variant": vname}, clause="layout-dtype")
                        else:
                            H.note("%s raises TypeError on %s" % (label, vname))
                            ref.setdefault(label, (vname, e_))
                    continue
                except Exception as e:
                    # an entry point that raises for one memory layout / dtype but returns for another depends on the layout
                    if label in ref and not isinstance(ref[label][1], BaseException):
                        H.violation("%s on %s: %s returns a value but %s raises %s: %s" % (label, cname, ref[label][0], vname, type(e).__name__, str(e)[:100]), {"call": label, "curve": cname, "variant": vname}, clause="layout-dtype")
                    else:
                        H.note("%s raises %s" % (label, type(e).__name__))
                        ref.setdefault(label, (vname, e))
                    continue
                if not np.array_equal(before, P):
                    H.violation("%s modified its points argument (%s/%s)" % (label, cname, vname), {"call": label, "curve": cname, "variant": vname}, clause="purity")
                    continue
                if not same(r1, r2, 0.0):
                    H.violation("%s is not deterministic on %s/%s: %s vs %s" % (label, cname, vname, tolist(r1), tolist(r2)), {"call": label, "curve": cname, "variant": vname}, clause="determinism")
                    continue
                if label not in ref:
                    ref[label] = (vname, r1)
                elif isinstance(ref[label][1], BaseException):
                    H.violation("%s on %s: %s raises %s but %s returns a value" % (label, cname, ref[label][0], type(ref[label][1]).__name__, vname), {"call": label, "curve": cname, "variant": vname}, clause="layout-dtype")
                elif not same(ref[label][1], r1):
                    H.violation("%s on %s: %s gives %s but %s gives %s" % (label, cname, ref[label][0], str(tolist(ref[label][1]))[:200], vname, str(tolist(r1))[:200]),
                                {"call": label, "curve": cname, "variant": vname}, clause="layout-dtype")
    # list arguments are not modified either
    t = [0.001, 0.01, 0.0001]
    t0 = list(t)
    rdp.min_point_rdp(np.column_stack((np.arange(13.0), 20.0 / (1 + np.arange(13.0)))), t, 5)
    if t != t0:
        H.violation("min_point_rdp modified its threshold list: %s -> %s" % (t0, t), {"call": "min_point_rdp"}, clause="purity")


if __name__ == "__main__":
    Harness("C20", "linking: every Name load, module attribute and intra-package call signature of every function of every module (static, exhaustive); "
            "purity/determinism/layout/dtype: ~75 public entry points x 3 curves x {C, Fortran, strided view} x {float64, int64 for the integer "
            "curves}, results compared (indices exactly, floats to 1e-12), arguments compared before/after, every call repeated", "3 curves of 13 points").main(run)
