"""C09 bounded layer: each single-knee detector returns the interior optimum of its stated criterion; L-method refinement terminates."""
import math
import numpy as np
import uts.gradient as grad
import uts.thresholding as thresh
import kneeliverse.curvature as curvature
import kneeliverse.dfdt as dfdt
import kneeliverse.menger as menger
import kneeliverse.lmethod as lm
from rt.common import Harness, family_curves, guarded, Timeout, curve
from rt.rdpfam import extra_curves


def first_arg(vals, best):
    return next(i for i, v in enumerate(vals) if v == best)


def check_curvature(H, name, pts):
    x, y = pts[:, 0], pts[:, 1]
    g1, g2 = grad.cfd(x, y), grad.csd(x, y)
    crit = np.abs(g2) / (1.0 + g1 ** 2) ** 1.5
    got = int(curvature.knee(pts.copy()))
    inner = crit[1:-1]
    want = 1 + first_arg(list(inner), inner.max())
    H.case((name, "curvature"), sample={"curve": name, "detector": "curvature", "n": len(pts)})
    if got != want or not (1 <= got <= len(pts) - 2):
        H.violation("curvature.knee on %s = %d, interior maximiser of |f''|/(1+f'^2)^1.5 is %d" % (name, got, want), {"curve": name, "points": pts, "detector": "curvature"}, clause="curvature")


def check_dfdt(H, name, pts):
    x, y = pts[:, 0], pts[:, 1]
    g = grad.cfd(x, y)

    def gk(gr):
        t = thresh.isodata(gr)
        d = np.abs(gr - t)[1:-1]
        return 1 + first_arg(list(d), d.min())
    H.case((name, "dfdt"), sample={"curve": name, "detector": "dfdt", "n": len(pts)})
    try:
        got = int(guarded(dfdt.knee, pts.copy(), limit=30))
    except Timeout:
        H.violation("dfdt.knee on %s did not return" % name, {"curve": name, "points": pts, "detector": "dfdt"}, clause="termination")
        return
    # refinement on the tail beyond half the previous knee while the knee moves right
    knee = cutoff = 0
    last = -1
    steps = 0
    while last < knee and len(x) - cutoff > 2:
        last = knee
        knee = gk(g[cutoff:]) + cutoff
        cutoff = int(math.ceil(knee / 2.0))
        steps += 1
        if steps > len(x) + 5:
            break
    if got != knee or not (1 <= got <= len(pts) - 2):
        H.violation("dfdt.knee on %s = %d, criterion (gradient closest to the ISODATA threshold, refined on the tail) gives %d" % (name, got, knee),
                    {"curve": name, "points": pts, "detector": "dfdt"}, clause="dfdt")
    if int(dfdt.get_knee(x, y)) != gk(g):
        H.violation("dfdt.get_knee on %s = %d, expected %d" % (name, int(dfdt.get_knee(x, y)), gk(g)), {"curve": name, "points": pts, "detector": "dfdt"}, clause="dfdt-single")


def menger_exact(f, g, h):
    cross = (g[0] - f[0]) * (h[1] - f[1]) - (g[1] - f[1]) * (h[0] - f[0])
    a2 = (g[0] - f[0]) ** 2 + (g[1] - f[1]) ** 2
    b2 = (h[0] - g[0]) ** 2 + (h[1] - g[1]) ** 2
    c2 = (f[0] - h[0]) ** 2 + (f[1] - h[1]) ** 2
    return 2 * abs(cross) / math.sqrt(a2 * b2 * c2)


def check_menger(H, name, pts):
    n = len(pts)
    crit = [0.0] + [menger_exact(pts[i - 1], pts[i], pts[i + 1]) for i in range(1, n - 1)] + [0.0]
    got = int(menger.knee(pts.copy()))
    best = max(crit)
    H.case((name, "menger"))
    if best <= 0:
        return        # fully collinear: every index attains the maximum 0
    # accept any index whose exact criterion is within rounding of the maximum, but require the first such index
    cand = [i for i, v in enumerate(crit) if v >= best * (1 - 1e-9)]
    if got not in cand or not (1 <= got <= n - 2):
        H.violation("menger.knee on %s = %d, the Menger curvature of consecutive triples is maximal at %s" % (name, got, cand[:5]),
                    {"curve": name, "points": pts, "detector": "menger"}, clause="menger")


def lm_getknee(x, y, fit, cost):
    length = x[-1] - x[0]
    errs = [lm.compute_error(x, y, i, length, fit, cost)[0] for i in range(2, len(x) - 2)]
    return 2 + first_arg(errs, min(errs))


def check_lmethod(H, name, pts):
    x, y = pts[:, 0], pts[:, 1]
    n = len(pts)
    if n < 5:
        return
    for fit in lm.Fit:
        for cost in lm.Cost:
            H.case((name, "lmethod.get_knee", str(fit), str(cost)))
            try:
                got = int(lm.get_knee(x, y, fit, cost)[0])
                want = lm_getknee(x, y, fit, cost)
            except Exception as e:
                H.violation("lmethod.get_knee(%s,%s) on %s raised %s: %s" % (fit, cost, name, type(e).__name__, str(e)[:80]),
                            {"curve": name, "points": pts, "detector": "lmethod"}, clause="lmethod-completes")
                continue
            if got != want or not (2 <= got <= n - 3):
                H.violation("lmethod.get_knee(%s,%s) on %s = %d, first minimiser of the two-line error over 2..n-3 is %d" % (fit, cost, name, got, want),
                            {"curve": name, "points": pts, "detector": "lmethod"}, clause="lmethod-min")
        for it in lm.Refinement:
            for limit in (4, 5, 10):
                H.case((name, "lmethod.knee", str(fit), str(it), limit))
                try:
                    got = int(guarded(lm.knee, pts.copy(), fit, it, limit, limit=20))
                except Timeout:
                    H.violation("lmethod.knee(%s,%s,limit=%d) on %s does not terminate" % (fit, it, limit, name),
                                {"curve": name, "points": pts, "detector": "lmethod", "fit": str(fit), "it": str(it), "limit": limit},
                                witness_id="lmethod-original-refinement-cycles" if it is lm.Refinement.original else None, clause="lmethod-termination")
                    continue
                except Exception as e:
                    H.violation("lmethod.knee(%s,%s,limit=%d) on %s raised %s: %s" % (fit, it, limit, name, type(e).__name__, str(e)[:80]),
                                {"curve": name, "points": pts, "detector": "lmethod", "fit": str(fit), "it": str(it), "limit": limit}, clause="lmethod-completes")
                    continue
                # replay the refinement with the criterion's minimiser on each prefix
                last, cur, cutoff, done, steps = -1, n, n, False, 0
                while cur != last and not done and steps < 10 * n:
                    last = cur
                    cur = lm_getknee(x[0:cutoff + 1], y[0:cutoff + 1], fit, lm.Cost.rmse)
                    if it is lm.Refinement.adjusted:
                        cutoff = max(limit, int((cur + last) / 2.0))
                    elif it is lm.Refinement.original:
                        cutoff = max(limit, min(cur * 2, n))
                        done = cur >= last          # refine only while the knee moves left (Salvador & Chan)
                    else:
                        done = True
                    steps += 1
                if got != cur:
                    H.violation("lmethod.knee(%s,%s,limit=%d) on %s = %d, the minimiser on the prefix it was refined on is %d" % (fit, it, limit, name, got, cur),
                                {"curve": name, "points": pts, "detector": "lmethod", "fit": str(fit), "it": str(it), "limit": limit}, clause="lmethod-refine")


def run(H, tier, rng):
    curves = [(nm, p) for nm, p in family_curves(tier, rng, nmax=15 if tier == "quick" else 30) + extra_curves(rng) if len(p) >= 3]
    curves = [(nm, p) for nm, p in curves if not nm.startswith(("huge", "tiny"))]
    x = np.arange(30) * 2e-4
    curves.append(("small-units-30", curve(x, 1e-3 / (1 + 5000 * x))))
    x = np.arange(60, dtype=float)
    curves.append(("head-mid-tail-60", curve(x, np.where(x < 6, 100 - 12 * x, np.where(x < 25, 28 - 0.9 * (x - 6), 10.9 - 0.01 * (x - 25))))))
    curves.append(("dec-int-25", curve(np.arange(25), [300 - 40 * i + i * i for i in range(25)])))
    for name, pts in curves:
        check_curvature(H, name, pts)
        check_dfdt(H, name, pts)
        check_menger(H, name, pts)
        check_lmethod(H, name, pts)
        if len(H.violations) >= 25:
            return


if __name__ == "__main__":
    Harness("C09", "curve families plus a small-units curve and a head/middle/tail curve x 4 detectors; L-method: Fit x Cost for the single pass and "
            "Fit x Refinement x limit in {4,5,10} for the refinement (termination guarded at 20 s, result replayed with the criterion's minimiser on "
            "each prefix); criteria computed from the dependency primitives (uts.gradient, uts.thresholding.isodata, lmethod.compute_error)", "n <= 60").main(run)
