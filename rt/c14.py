"""C14 bounded layer: even-point insertion against the documented candidate rule (exact rationals)."""
import itertools, math
from fractions import Fraction as F
import numpy as np
import kneeliverse.postprocessing as pp
import kneeliverse.rdp as rdp
from rt.common import Harness, family_curves, subsets_with_ends, curve
from rt.rdpfam import extra_curves


def running_min(pts, idxs):
    out, hmin = [], None
    for i, k in enumerate(idxs):
        h = pts[k][1]
        if i == 0 or h <= hmin:
            out.append(int(k))
            hmin = h
    return out


def candidates(pts, pairs, tx, ty):
    xs = [F(float(p[0])) for p in pts]
    ys = [F(float(p[1])) for p in pts]
    dx, dy = max(xs) - min(xs), max(ys) - min(ys)
    new, tie = [], False
    for L, R in pairs:
        w = abs(xs[R] - xs[L]) / dx
        h = abs(ys[R] - ys[L]) / dy
        if abs(w - 2 * tx) < F(1, 10 ** 9) or abs(h - ty) < F(1, 10 ** 9):
            tie = True
        if w > 2 * tx and h > ty:
            q = w / (2 * tx)
            N = math.ceil(q)
            if abs(q - round(q)) < F(1, 10 ** 9):
                tie = True
            inc = (R - L) // N
            new.extend(L + j * inc for j in range(1, N + 1))
    return new, tie


def check_even(H, name, pts, reduced, knees_pos, tx, ty, extremes):
    P = np.array(pts, dtype=float)
    red = np.array(reduced)
    removed = rdp.compute_removed_points(P, red)
    K = np.array(knees_pos, dtype=int)
    inp = {"curve": name, "points": pts, "reduced": list(reduced), "knees": list(knees_pos), "tx": float(tx), "ty": float(ty), "extremes": extremes, "fn": "add_points_even"}
    H.case((name, tuple(reduced), tuple(knees_pos), tx, ty, extremes), sample={k: v for k, v in inp.items() if k != "points"})
    pairs = [(reduced[i - 1], reduced[i]) for i in range(1, len(reduced))]
    new, tie = candidates(pts, pairs, tx, ty)
    if tie:
        H.note("skipped: threshold tie")
        return
    want = sorted(set([reduced[k] for k in knees_pos] + new + ([0, len(pts) - 1] if extremes else [])))
    want = running_min(pts, want)
    before = (P.copy(), red.copy(), K.copy(), removed.copy())
    try:
        got = [int(v) for v in pp.add_points_even(P, red, K, removed, float(tx), float(ty), extremes)]
    except Exception as e:
        H.violation("add_points_even(%s) raised %s: %s" % ({k: v for k, v in inp.items() if k != "points"}, type(e).__name__, e), inp, clause="completes")
        return
    if got != want or any(not (0 <= v < len(pts)) for v in got):
        H.violation("add_points_even(reduced=%s, knees=%s, tx=%s, ty=%s, extremes=%s) on %s = %s, documented candidates filtered by the running minimum are %s" % (
            list(reduced), list(knees_pos), float(tx), float(ty), extremes, name, got, want), inp, clause="even")
        return
    if not all(np.array_equal(a, b) for a, b in zip(before, (P, red, K, removed))):
        H.violation("add_points_even modified its arguments", inp, clause="frame")


def check_knees(H, name, pts, knees, tx, ty, extremes):
    P = np.array(pts, dtype=float)
    K = np.array(knees, dtype=int)
    n = len(pts)
    inp = {"curve": name, "points": pts, "knees": list(knees), "tx": float(tx), "ty": float(ty), "extremes": extremes, "fn": "add_points_even_knees"}
    H.case((name, "knees", tuple(knees), tx, ty, extremes))
    marks = [0] + list(knees) + [n - 1]
    pairs = [(marks[i - 1], marks[i]) for i in range(1, len(marks))]
    new, tie = candidates(pts, pairs, tx, ty)
    if tie:
        H.note("skipped: threshold tie")
        return
    want = running_min(pts, sorted(set(list(knees) + new + ([0, n - 1] if extremes else []))))
    try:
        got = [int(v) for v in pp.add_points_even_knees(P, K, float(tx), float(ty), extremes)]
    except Exception as e:
        H.violation("add_points_even_knees(knees=%s, tx=%s, ty=%s, extremes=%s) on %s raised %s: %s" % (list(knees), float(tx), float(ty), extremes, name, type(e).__name__, e), inp, clause="completes")
        return
    if got != want or any(not (0 <= v < n) for v in got):
        H.violation("add_points_even_knees(knees=%s, tx=%s, ty=%s, extremes=%s) on %s = %s, expected %s" % (list(knees), float(tx), float(ty), extremes, name, got, want), inp, clause="even-knees")


def run(H, tier, rng):
    curves = [(nm, p) for nm, p in family_curves(tier, rng, nmax=12) + extra_curves(rng) if 4 <= len(p) <= 13]
    curves = [(nm, p) for nm, p in curves if np.ptp(p[:, 1]) > 0 and not nm.startswith(("huge", "tiny"))]
    curves.append(("jump-end-8", curve([0, 1, 2, 3, 4, 5, 6, 20], [9, 8, 7, 6, 5, 4, 3, 0])))
    curves.append(("jump-start-8", curve([0, 14, 15, 16, 17, 18, 19, 20], [9, 3, 2.5, 2, 1.5, 1, 0.5, 0])))
    xs = np.arange(40, dtype=float)
    curves.append(("wave-40", curve(xs, 100 / (1 + 0.2 * xs) + 2 * np.sin(0.7 * xs))))
    txs = [F(1, 20), F(1, 10), F(3, 10)]
    tys = [F(1, 25), F(1, 20), F(1, 5)]
    for name, P in curves:
        pts = P.tolist()
        n = len(pts)
        reds = list(subsets_with_ends(n)) if n <= 8 else []
        if len(reds) > 12:
            reds = rng.sample(reds, 12)
        try:
            r, _ = rdp.rdp(P, 0.2)
            reds.append([int(v) for v in r])
            r, _ = rdp.rdp_fixed(P, max(3, n // 3))
            reds.append([int(v) for v in r])
        except Exception:
            pass
        for red in reds:
            m = len(red)
            for _ in range(2):
                kp = sorted(rng.sample(range(m), rng.randint(1, m)))
                for tx in txs:
                    for ty in tys:
                        for ex in (False, True):
                            check_even(H, name, pts, red, kp, tx, ty, ex)
            if len(H.violations) >= 20:
                return
        for _ in range(6):
            kn = sorted(rng.sample(range(n), rng.randint(1, min(4, n))))
            for tx in txs:
                for ty in tys[:2]:
                    for ex in (False, True):
                        check_knees(H, name, pts, kn, tx, ty, ex)


if __name__ == "__main__":
    Harness("C14", "curves with non-constant x and y (incl. sparse jumps at either end and a non-monotone 40-point wave) x reductions (index subsets, "
            "rdp, rdp_fixed) x knee subsets x tx in {.05,.1,.3} x ty in {.04,.05,.2} x extremes; oracle: documented candidate rule in exact "
            "rational arithmetic + greedy running-minimum filter; threshold ties skipped", "n <= 40").main(run)
