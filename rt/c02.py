"""C02 bounded layer: recursive multi-knee detection against its recursive definition executed on the real detectors."""
import sys
import numpy as np
import kneeliverse.multi_knee as mk
import kneeliverse.linear_fit as lf
import kneeliverse.curvature as curvature
import kneeliverse.dfdt as dfdt
import kneeliverse.menger as menger
import kneeliverse.lmethod as lmethod
import kneeliverse.kneedle as kneedle
from rt.common import Harness, family_curves, guarded, Timeout, curve
from rt.rdpfam import extra_curves

DET = {"curvature": (curvature, 3, 1), "dfdt": (dfdt, 3, 1), "menger": (menger, 4, 0), "lmethod": (lmethod, 4, 1), "kneedle": (kneedle, 3, 1)}


def mk_oracle(det, pts, t1, t2):
    """the statement's definition, evaluated with an explicit work list (no recursion limit)"""
    out = []
    work = [(0, len(pts))]
    steps = 0
    while work:
        steps += 1
        if steps > 4 * len(pts) + 10:
            raise RuntimeError("definition does not terminate")
        l, r = work.pop()
        p = pts[l:r]
        if len(p) <= t2:
            continue
        coef = lf.linear_fit_points(p)
        if lf.smape_points(p, coef) < t1:
            continue
        k = det(p)
        if k is None:
            continue
        k = int(k)
        out.append(l + k)
        work.append((l, l + k + 1))
        work.append((l + k + 1, r))
    return sorted(out)


def check(H, name, pts, dname, t1, t2):
    mod, tmin, lo = DET[dname]
    inp = {"curve": name, "n": len(pts), "points": pts if len(pts) <= 40 else "generated:" + name, "detector": dname, "t1": t1, "t2": t2}
    H.case((name, dname, t1, t2), nontrivial=len(pts) > t2, sample={k: v for k, v in inp.items() if k != "points"})
    try:
        got = guarded(mod.multi_knee, pts.copy(), t1, t2, limit=120)
    except Timeout:
        H.violation("%s.multi_knee(t1=%s,t2=%s) on %s did not return within 120 s" % (dname, t1, t2, name), inp, clause="termination")
        return
    except Exception as e:
        H.violation("%s.multi_knee(t1=%s,t2=%s) on %s raised %s: %s" % (dname, t1, t2, name, type(e).__name__, str(e)[:100]), inp, clause="completes")
        return
    got = [int(v) for v in got]
    n = len(pts)
    if any(b <= a for a, b in zip(got, got[1:])) or any(not (lo <= v <= n - 2) for v in got):
        H.violation("%s.multi_knee on %s returns %s: not strictly increasing within [%d, %d]" % (dname, name, got, lo, n - 2), inp, clause="well-formed")
        return
    try:
        want = mk_oracle(mod.knee, pts, t1, t2)
    except Exception as e:
        H.note("oracle failed: %s" % type(e).__name__)
        return
    if got != want:
        H.violation("%s.multi_knee(t1=%s,t2=%s) on %s = %s, recursive definition gives %s" % (dname, t1, t2, name, got[:30], want[:30]), inp, clause="self-similar")


def run(H, tier, rng):
    curves = [(nm, p) for nm, p in family_curves(tier, rng, nmax=12 if tier == "quick" else 30) + extra_curves(rng) if len(p) >= 2]
    curves = [(nm, p) for nm, p in curves if not nm.startswith(("huge", "tiny"))]
    xs = np.arange(1, 61, dtype=float)
    curves.append(("hyper-60", curve(xs, 100.0 / xs)))
    curves.append(("collinear-int-11", curve(np.arange(11), 20 - 2 * np.arange(11))))
    for name, pts in curves:
        for dname, (mod, tmin, lo) in DET.items():
            for t2 in (tmin, tmin + 2):
                for t1 in (0.0, 0.001, 0.01, 0.2):
                    check(H, name, pts, dname, t1, t2)
                # boundary: t1 equal to the curve's own end-point SMAPE
                if len(pts) > t2:
                    s = float(lf.smape_points(pts, lf.linear_fit_points(pts)))
                    if s > 0:
                        check(H, name, pts, dname, s, t2)
            if len(H.violations) >= 20:
                return
    # deep split trees (the explicit work stack must not depend on the interpreter's recursion limit)
    n = 2600 if tier == "quick" else 4000
    x = np.arange(n, dtype=float)
    long_curve = curve(x, np.exp(-x / 200.0))
    check(H, "exp-%d" % n, long_curve, "curvature", 0.001, 3)
    if tier != "quick":
        check(H, "exp-%d" % n, long_curve, "menger", 0.001, 4)


if __name__ == "__main__":
    Harness("C02", "curve families x 5 detectors x t1 in {0,.001,.01,.2, the curve's own end-point SMAPE} x t2 in {minimum, minimum+2}; a 2600-point "
            "(4000 thorough) exponential for deep split trees; oracle: the statement's recursive definition executed with the real single-knee "
            "detector", "n <= 60 (+1 long curve)").main(run)
