"""Sidecar contracts for kneeliverse.multi_knee (C02), mode U: the fit quality test and the single-knee detector are uninterpreted."""
C = {}
PTS = "Seq[Tup[Real,Real]]"
METRIC = "Enum[kneeliverse.metrics.Metrics]"

for _f in ("smape_points", "linear_r2_points"):
    C["kneeliverse.linear_fit." + _f] = dict(
        mode="U", summary=True, params={"points": PTS, "coef": "Tup[Real,Real]"}, returns="Real",
        requires=["len(points) >= 1"], ensures=["result == uf('Fit_%s', 'Real', points, coef)" % _f])
C["kneeliverse.linear_fit.linear_fit_points"] = dict(
    mode="U", summary=True, params={"points": PTS}, returns="Tup[Real,Real]", requires=["len(points) >= 1"],
    ensures=["result[0] == uf('LFb', 'Real', points)", "result[1] == uf('LFm', 'Real', points)"])

N = "len(points)"
SZ = "len(stack)"


def curved(l, r):
    """the straightness gate of the statement on points[l:r]: curved iff SMAPE of the end-point line >= t1 (R2 < t1 for cost r2)"""
    sl = "points[%s:%s]" % (l, r)
    coef = "(uf('LFb', 'Real', %s), uf('LFm', 'Real', %s))" % (sl, sl)
    fit = "ite(cost is metrics.Metrics.r2, uf('Fit_linear_r2_points', 'Real', %s, %s), uf('Fit_smape_points', 'Real', %s, %s))" % (sl, coef, sl, coef)
    val = "ite((%s) - (%s) <= 2, ite(cost is metrics.Metrics.rmspe, 0.0, 1.0), %s)" % (r, l, fit)
    return "ite(cost is metrics.Metrics.r2, %s < t1, %s >= t1)" % (val, val)


EMPTY_CASE = "(%s <= t2 or not (%s))" % (N, curved("0", N))
C["kneeliverse.multi_knee.multi_knee"] = dict(
    mode="U", owner="C02",
    params={"get_knee": "Fn", "points": PTS, "t1": "Real", "t2": "Int", "cost": METRIC}, returns="Seq[Int]",
    locals={"stack": "Seq[Tup[Int,Int]]", "knees": "Seq[Int]"},
    ghost_vars={"lo": "Int"},
    # abstract contract of the detector parameter: on a segment with more than t2 points it returns None or an index between
    # lo (1; 0 for Menger) and len-2, and it is a function of the segment contents
    callables={"get_knee": dict(
        params={"a0": PTS}, returns="Opt[Int]",
        requires=["len(a0) > t2"],
        ensures=["implies(not is_none(result), lo <= opt_val(result) and opt_val(result) <= len(a0) - 2)"],
    )},
    requires=["len(points) >= 2", "t1 >= 0", "t2 >= 2", "0 <= lo and lo <= 1"],
    ensures=[
        "forall2(0, len(result), lambda a, b: result[a] < result[b])",
        "forall(0, len(result), lambda k: lo <= result[k] and result[k] <= %s - 2)" % N,
        "implies(%s, len(result) == 0)" % EMPTY_CASE,
    ],
    loops={0: dict(
        inv=[
            "forall(0, %s, lambda k: 0 <= stack[k][0] and stack[k][0] < stack[k][1] and stack[k][1] <= %s)" % (SZ, N),
            "forall2(0, %s, lambda a, b: stack[a][1] <= stack[b][0])" % SZ,
            "forall(0, %s, lambda k: stack[k][1] >= k + 1)" % SZ,
            "forall(0, len(knees), lambda k: lo <= knees[k] and knees[k] <= %s - 2)" % N,
            "forall2(0, len(knees), lambda a, b: knees[a] != knees[b])",
            "forall(0, len(knees), lambda k: forall(0, %s, lambda j: knees[k] < stack[j][0] or knees[k] >= stack[j][1] - 1))" % SZ,
            "implies(%s, len(knees) == 0 and (%s == 0 or (%s == 1 and stack[0][0] == 0 and stack[0][1] == %s)))" % (EMPTY_CASE, SZ, SZ, N),
        ],
        # termination: at most 2n-1 iterations
        var="ite(%s > 0, 2 * stack[%s - 1][1] - %s, 0)" % (SZ, SZ, SZ),
    )},
)
