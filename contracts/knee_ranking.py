"""Sidecar contracts for kneeliverse.knee_ranking (C17: rectangle overlap, rank)."""
C = {}
LEMMAS = {}
V = "Seq[Real]"


def iou_funs(a0, a1, b0, b1):
    """named quantities of the intersection-over-union of the rectangles [a0,a1] and [b0,b1] (corner arrays)"""
    DX = "max2(0.0, min2(%s[0], %s[0]) - max2(%s[0], %s[0]))" % (a1, b1, a0, b0)
    DY = "max2(0.0, min2(%s[1], %s[1]) - max2(%s[1], %s[1]))" % (a1, b1, a0, b0)
    return {"DX": ([], "Real", DX), "DY": ([], "Real", DY), "OV": ([], "Real", "(%s) * (%s)" % (DX, DY)),
            "AA": ([], "Real", "(%s[0] - %s[0]) * (%s[1] - %s[1])" % (a1, a0, a1, a0)),
            "BB": ([], "Real", "(%s[0] - %s[0]) * (%s[1] - %s[1])" % (b1, b0, b1, b0))}


C["kneeliverse.knee_ranking.rect_overlap"] = dict(
    mode="R", owner="C17",
    params={"amin": V, "amax": V, "bmin": V, "bmax": V}, returns="Real",
    spec_funs=iou_funs("amin", "amax", "bmin", "bmax"),
    requires=["len(amin) == 2 and len(amax) == 2 and len(bmin) == 2 and len(bmax) == 2",
              "amin[0] <= amax[0] and amin[1] <= amax[1] and bmin[0] <= bmax[0] and bmin[1] <= bmax[1]"],      # rect()-ordered corners
    post_hints={0: [
        "dx == DX() and dy == DY() and overlap == OV()", "overlap > 0", "DX() > 0 and DY() > 0",
        "a[0] == amax[0] - amin[0] and a[1] == amax[1] - amin[1] and b[0] == bmax[0] - bmin[0] and b[1] == bmax[1] - bmin[1]",
        "total_area == AA() + BB() - OV()",
        "DX() <= amax[0] - amin[0] and DX() <= bmax[0] - bmin[0] and DY() <= amax[1] - amin[1] and DY() <= bmax[1] - bmin[1]",
        "DX() * DY() <= (amax[0] - amin[0]) * DY()", "(amax[0] - amin[0]) * DY() <= (amax[0] - amin[0]) * (amax[1] - amin[1])", "OV() <= AA()",
        "DX() * DY() <= (bmax[0] - bmin[0]) * DY()", "(bmax[0] - bmin[0]) * DY() <= (bmax[0] - bmin[0]) * (bmax[1] - bmin[1])", "OV() <= BB()",
        "total_area >= OV() and total_area > 0",
    ], 1: ["dx == DX() and dy == DY() and overlap == OV()", "DX() >= 0 and DY() >= 0", "OV() >= 0", "OV() <= 0"]},
    ensures=[
        "result == ite(OV() > 0, OV() / (AA() + BB() - OV()), 0.0)",         # intersection over union
        "0 <= result and result <= 1",
        # disjoint rectangles (no overlap in x or in y) -> 0
        "implies(amax[0] <= bmin[0] or bmax[0] <= amin[0] or amax[1] <= bmin[1] or bmax[1] <= amin[1], result == 0)",
        # identical non-degenerate rectangles -> 1
        "implies(amin[0] == bmin[0] and amin[1] == bmin[1] and amax[0] == bmax[0] and amax[1] == bmax[1] and amin[0] < amax[0] and amin[1] < amax[1], result == 1)",
    ],
)

C["kneeliverse.knee_ranking.rect"] = dict(
    mode="R", owner="C17",
    params={"p1": V, "p2": V}, returns="Tup[Seq[Real],Seq[Real]]",
    requires=["len(p1) == 2 and len(p2) == 2"],
    ensures=["len(result[0]) == 2 and len(result[1]) == 2",
             "result[0][0] == min2(p1[0], p2[0]) and result[0][1] == min2(p1[1], p2[1])",
             "result[1][0] == max2(p1[0], p2[0]) and result[1][1] == max2(p1[1], p2[1])"],
)

# symmetry of the intersection-over-union: a lemma over the contract's formula
_F = lambda a0, a1, b0, b1: ("ite(({dx}) * ({dy}) > 0, (({dx}) * ({dy})) / (({a1}[0]-{a0}[0])*({a1}[1]-{a0}[1]) + ({b1}[0]-{b0}[0])*({b1}[1]-{b0}[1]) - ({dx}) * ({dy})), 0.0)").format(
    a0=a0, a1=a1, b0=b0, b1=b1,
    dx="max2(0.0, min2(%s[0], %s[0]) - max2(%s[0], %s[0]))" % (a1, b1, a0, b0), dy="max2(0.0, min2(%s[1], %s[1]) - max2(%s[1], %s[1]))" % (a1, b1, a0, b0))
LEMMAS["rect_overlap_symmetric"] = dict(
    context="kneeliverse.knee_ranking.rect_overlap", owner="C17", mode="R",
    vars={"amin": V, "amax": V, "bmin": V, "bmax": V, "X": "Real", "Y": "Real", "X2": "Real", "Y2": "Real"},
    hyps=["X == max2(0.0, min2(amax[0], bmax[0]) - max2(amin[0], bmin[0]))", "Y == max2(0.0, min2(amax[1], bmax[1]) - max2(amin[1], bmin[1]))",
          "X2 == max2(0.0, min2(bmax[0], amax[0]) - max2(bmin[0], amin[0]))", "Y2 == max2(0.0, min2(bmax[1], amax[1]) - max2(bmin[1], amin[1]))"],
    steps=["X == X2", "Y == Y2", "X * Y == X2 * Y2"],
    goal=["%s == %s" % (_F("amin", "amax", "bmin", "bmax"), _F("bmin", "bmax", "amin", "amax"))],
)

# rank: the permutation of 0..n-1 that orders the values
C["kneeliverse.knee_ranking.rank"] = dict(
    mode="R", owner="C17",
    params={"array": V}, returns="Seq[Int]",
    requires=["len(array) >= 0"],
    post_hints=[
        "len(ranks) == len(array) and len(temp) == len(array)",
        "forall(0, len(array), lambda k: 0 <= temp[k] and temp[k] < len(array) and ranks[temp[k]] == k)",
    ],
    ensures=[
        "len(result) == len(array)",
        "forall(0, len(array), lambda i: 0 <= result[i] and result[i] < len(array))",
        "forall2(0, len(array), lambda i, j: result[i] != result[j])",                                   # a permutation of 0..n-1
        "forall(0, len(array), lambda i: forall(0, len(array), lambda j: implies(array[i] < array[j], result[i] < result[j])))",   # that orders the values
    ],
)
