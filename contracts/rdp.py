"""Sidecar contracts for kneeliverse.rdp (the repository file stays untouched)."""
C = {}

REDUCED = [
    "len(reduced) >= 2",
    "reduced[0] == 0",
    "forall2(0, len(reduced), lambda a, b: reduced[a] < reduced[b])",
]

# ------------------------------------------------------------------ C07: mapping (sorted=True)
C["kneeliverse.rdp.mapping"] = dict(
    params={"indexes": "Seq[Int]", "reduced": "Seq[Int]", "removed": "Seq[Tup[Real,Real]]", "sorted": "Bool"},
    returns="Seq[Int]",
    locals={"rv": "Seq[Int]"},
    requires=REDUCED + [
        "sorted == True",
        "len(removed) == len(reduced) - 1",
        "forall(0, len(removed), lambda k: removed[k][0] == reduced[k] and removed[k][1] == reduced[k+1] - reduced[k] - 1)",
        "forall(0, len(indexes), lambda k: 0 <= indexes[k] and indexes[k] < len(reduced))",
        "forall2(0, len(indexes), lambda a, b: indexes[a] <= indexes[b])",
    ],
    ensures=[
        "len(result) == len(indexes)",
        "forall(0, len(result), lambda k: result[k] == reduced[indexes[k]])",
    ],
    loops={
        0: dict(inv=[
            "0 <= j and j <= len(sorted_removed)",
            "count == reduced[j] - j",
            "len(rv) == _it0",
            "implies(_it0 > 0, j <= indexes[_it0 - 1])",
            "implies(_it0 == 0, j == 0)",
            "forall(0, _it0, lambda k: rv[k] == reduced[indexes[k]])",
        ]),
        1: dict(inv=[
            "0 <= j and j <= len(sorted_removed)",
            "j <= i",
            "count == reduced[j] - j",
        ], var="len(sorted_removed) - j"),
    },
)

# sorted=False: `removed` is any row permutation of the table (ghost witnesses SIG / SIGINV of the permutation)
_M = C["kneeliverse.rdp.mapping"]
_T = "SIG[_last_argsort[%s]]"
_GAP = lambda j: "reduced[(%s)+1] - reduced[%s] - 1" % (j, j)
C["kneeliverse.rdp.mapping#unsorted"] = dict(
    function="kneeliverse.rdp.mapping", owner="C07",
    params=_M["params"], returns=_M["returns"], locals=_M["locals"],
    ghost_vars={"SIG": "Seq[Int]", "SIGINV": "Seq[Int]"},
    requires=REDUCED + [
        "sorted == False",
        "len(removed) == len(reduced) - 1",
        "forall(0, len(removed), lambda j: 0 <= SIG[j] and SIG[j] < len(removed) and SIGINV[SIG[j]] == j)",
        "forall(0, len(removed), lambda j: 0 <= SIGINV[j] and SIGINV[j] < len(removed) and SIG[SIGINV[j]] == j)",
        "forall(0, len(removed), lambda j: removed[j][0] == reduced[SIG[j]] and removed[j][1] == reduced[SIG[j]+1] - reduced[SIG[j]] - 1)",
        "forall(0, len(indexes), lambda k: 0 <= indexes[k] and indexes[k] < len(reduced))",
        "forall2(0, len(indexes), lambda a, b: indexes[a] <= indexes[b])",
    ],
    ensures=_M["ensures"],
    after={"sorted_removed": [
        "len(sorted_removed) == len(removed) and len(_last_argsort) == len(removed)",
        "forall(0, len(removed), lambda k: 0 <= _last_argsort[k] and _last_argsort[k] < len(removed))",
        "forall(0, len(removed), lambda k: 0 <= %s and %s < len(removed))" % (_T % "k", _T % "k"),
        "forall(0, len(removed), lambda k: sorted_removed[k][0] == reduced[%s] and sorted_removed[k][1] == %s)" % (_T % "k", _GAP(_T % "k")),
        "forall2(0, len(removed), lambda a, b: _last_argsort[a] != _last_argsort[b])",
        "forall2(0, len(removed), lambda a, b: %s != %s)" % (_T % "a", _T % "b"),
        "forall2(0, len(removed), lambda a, b: reduced[%s] <= reduced[%s])" % (_T % "a", _T % "b"),
        "forall2(0, len(removed), lambda a, b: %s < %s)" % (_T % "a", _T % "b"),
        # a strictly increasing map of [0, m) into itself is the identity: two inductions
        {"induct": ("k", "0", "len(removed)", "%s >= @" % (_T % "@"))},
        {"induct": ("j", "0", "len(removed)", "%s <= len(removed) - 1 - @" % (_T % "(len(removed) - 1 - @)"))},
        "forall(0, len(removed), lambda k: %s <= k)" % (_T % "k"),
        "forall(0, len(removed), lambda k: %s == k)" % (_T % "k"),
        "forall(0, len(removed), lambda k: sorted_removed[k][0] == reduced[k] and sorted_removed[k][1] == reduced[k+1] - reduced[k] - 1)",
    ]},
    loops=_M["loops"],
)

C["kneeliverse.rdp.compute_removed_points"] = dict(
    params={"points": "Seq[Tup[Real,Real]]", "reduced": "Seq[Int]"},
    returns="Seq[Tup[Int,Int]]",
    locals={"removed": "Seq[Tup[Int,Int]]"},
    requires=[
        "len(reduced) >= 1",
        "forall2(0, len(reduced), lambda a, b: reduced[a] < reduced[b])",
        "reduced[0] >= 0",
        "reduced[len(reduced)-1] <= len(points) - 1",
    ],
    ensures=[
        "len(result) == len(reduced) - 1",
        "forall(0, len(result), lambda k: result[k][0] == reduced[k] and result[k][1] == reduced[k+1] - reduced[k] - 1)",
    ],
    loops={
        0: dict(inv=[
            "len(removed) == _it0",
            "left == reduced[_it0]",
            "forall(0, _it0, lambda k: removed[k][0] == reduced[k] and removed[k][1] == reduced[k+1] - reduced[k] - 1)",
        ]),
    },
)


# ================================================================== C01 / C04: threshold RDP (mode U)
PTS = "Seq[Tup[Real,Real]]"
DIST = "Enum[kneeliverse.rdp.Distance]"
METRIC = "Enum[kneeliverse.metrics.Metrics]"
ORDER = "Enum[kneeliverse.rdp.Order]"

C["kneeliverse.rdp.compute_cost_coef"] = dict(
    mode="U", summary=True,
    params={"pt": PTS, "coef": "Tup[Real,Real]", "cost": METRIC}, returns="Real",
    requires=[], ensures=["result == uf('CostCoef', 'Real', pt, coef, cost)"],
)

N = "len(points)"
SZ = "len(stack)"
FRONT = "ite(len(stack) > 0, stack[len(stack)-1][0], len(points)-1)"
RL = "len(reduced)"

def reduced_table(red, rem, closing):
    """removed[k] = [reduced[k], reduced[k+1]-reduced[k]-1]; the last row closes at `closing`"""
    return [
        "len(%s) == len(%s)" % (rem, red),
        "forall(0, len(%s), lambda k: %s[k][0] == %s[k])" % (rem, rem, red),
        "forall(0, len(%s) - 1, lambda k: %s[k][1] == %s[k+1] - %s[k] - 1)" % (rem, rem, red, red),
        "implies(len(%s) > 0, %s[len(%s)-1][1] == %s - %s[len(%s)-1] - 1)" % (rem, rem, rem, closing, red, red),
    ]

def seg_cost(l, r):
    """the cost the library's own primitives assign to points[l:r] (2-point segments: 0, or 1 for R2)"""
    sl = "points[%s:%s]" % (l, r)
    return ("ite((%s) - (%s) <= 2, ite(cost is metrics.Metrics.r2, 1.0, 0.0), "
            "uf('CostCoef', 'Real', %s, (uf('LFb', 'Real', %s), uf('LFm', 'Real', %s)), cost))" % (r, l, sl, sl, sl))


def accept(c):
    """accepting side of the threshold - copied from the statement of C04: cost < t, or R2 >= t"""
    return "ite(cost is metrics.Metrics.r2, (%s) >= t, (%s) < t)" % (c, c)


def dist_seq(l, r):
    """the distance array the requested Distance assigns to points[l:r] against its chord (library primitive, uninterpreted)"""
    sl = "points[%s:%s]" % (l, r)
    a = "points[%s]" % l
    b = "points[(%s) - 1]" % r
    n = "(%s) - (%s)" % (r, l)
    return ("ite(distance is Distance.perpendicular, "
            "ufa('Dist_perpendicular_distance_points', 'Real', %s, %s, %s, %s), "
            "ufa('Dist_shortest_distance_points', 'Real', %s, %s, %s, %s))" % (n, sl, a, b, n, sl, a, b))


def explained(v):
    """C04 (X), scalar part: index v is explained by a split of the range [PL[v], PR[v]) recorded in the ghost
    maps: v is strictly inside the range and the range's cost is on the rejecting side of t"""
    l, r = "PL[%s]" % v, "PR[%s]" % v
    return ("0 <= {l} and {l} < {v} and {v} < {r} - 1 and {r} <= len(points) and (not ({acc}))"
            ).format(l=l, r=r, v=v, acc=accept(seg_cost(l, r)))


def dominates(v, i):
    """C04 (X), arg-max part: interior point i of the explaining range is not farther from the chord than v"""
    l, r = "PL[%s]" % v, "PR[%s]" % v
    D = dist_seq(l, r)
    return "implies(1 <= {i} and {i} < {r} - {l} - 1, ({D})[{i}] <= ({D})[{v} - {l}])".format(l=l, r=r, v=v, i=i, D=D)


C["kneeliverse.rdp.rdp"] = dict(
    mode="U", owner="C01",
    ghost_vars={"PL": "Seq[Int]", "PR": "Seq[Int]"},
    params={"points": PTS, "t": "Real", "distance": DIST, "cost": METRIC},
    returns="Tup[Seq[Int],Seq[Tup[Real,Real]]]",
    locals={"stack": "Seq[Tup[Int,Int]]", "reduced": "Seq[Int]", "removed": "Seq[Tup[Real,Real]]"},
    requires=[
        "len(points) >= 2",
        "t > 0",
        "implies(cost is metrics.Metrics.r2, t <= 1)",
    ],
    ensures=[
        # (W) well-formed reduction
        "len(result[0]) >= 2",
        "result[0][0] == 0",
        "result[0][len(result[0])-1] == len(points) - 1",
        "forall2(0, len(result[0]), lambda a, b: result[0][a] < result[0][b])",
        # (R) removed table: one row [left index, dropped interior points] per retained segment
        "len(result[1]) == len(result[0]) - 1",
        "forall(0, len(result[1]), lambda k: result[1][k][0] == result[0][k] and result[1][k][1] == result[0][k+1] - result[0][k] - 1)",
        # C04 (K): every retained segment with interior points is on the accepting side of t
        "@C04 forall(0, len(result[0]) - 1, lambda k: implies(result[0][k+1] - result[0][k] >= 2, %s))" % accept(seg_cost("result[0][k]", "result[0][k+1] + 1")),
        # C04 (X): every retained interior index is explained by a recursive split (ghost witnesses PL, PR)
        "@C04 forall(1, len(result[0]) - 1, lambda k: %s)" % explained("result[0][k]"),
        "@C04 forall(1, len(result[0]) - 1, lambda k: forall(0, len(points), lambda i: %s))" % dominates("result[0][k]", "i"),
    ],
    loops={0: dict(
        inv=[
            "@C04 forall(0, %s - 1, lambda k: implies(reduced[k+1] - reduced[k] >= 2, %s))" % (RL, accept(seg_cost("reduced[k]", "reduced[k+1] + 1"))),
            "@C04 implies(%s > 0 and %s - reduced[%s-1] >= 2, %s)" % (RL, FRONT, RL, accept(seg_cost("reduced[%s-1]" % RL, "%s + 1" % FRONT))),
            # work stack: segments with >= 2 points that tile [FRONT, n) from top to bottom
            "forall(0, %s, lambda k: 0 <= stack[k][0] and stack[k][1] <= %s and stack[k][1] - stack[k][0] >= 2)" % (SZ, N),
            "implies(%s > 0, stack[0][1] == %s)" % (SZ, N),
            "forall(0, %s - 1, lambda k: stack[k][0] == stack[k+1][1] - 1)" % SZ,
            "forall(0, %s, lambda k: stack[k][1] + k <= %s)" % (SZ, N),
            # retained prefix
            "iff(%s == 0, %s == 0)" % (RL, FRONT),
            "implies(%s > 0, reduced[0] == 0 and reduced[%s-1] < %s)" % (RL, RL, FRONT),
            "forall2(0, %s, lambda a, b: reduced[a] < reduced[b])" % RL,
        ] + reduced_table("reduced", "removed", FRONT) + [
            "@C04 forall2(0, %s, lambda a, b: stack[a][0] >= stack[b][1] - 1)" % SZ,
            "@C04 forall(0, %s, lambda k: implies(stack[k][0] > 0, %s))" % (SZ, explained("stack[k][0]")),
            "@C04 forall(1, %s, lambda k: %s)" % (RL, explained("reduced[k]")),
            "@C04 forall(0, %s, lambda k: forall(0, len(points), lambda i: implies(stack[k][0] > 0, %s)))" % (SZ, dominates("stack[k][0]", "i")),
            "@C04 forall(1, %s, lambda k: forall(0, len(points), lambda i: %s))" % (RL, dominates("reduced[k]", "i")),
        ],
        # ghost: when a segment was split (stack grew by one), record its range as the explanation of the split index
        ghost_end=[
            "PL = ite(len(stack) == len(_h_stack) + 1, store(PL, stack[len(stack)-1][1] - 1, stack[len(stack)-1][0]), PL)",
            "PR = ite(len(stack) == len(_h_stack) + 1, store(PR, stack[len(stack)-1][1] - 1, stack[len(stack)-2][1]), PR)",
        ],
        hints=[
            "@C04 implies(len(stack) == len(_h_stack) + 1, PL[stack[len(stack)-1][1] - 1] == stack[len(stack)-1][0] and PR[stack[len(stack)-1][1] - 1] == stack[len(stack)-2][1])",
            "@C04 implies(len(stack) == len(_h_stack) + 1, forall(0, len(_h_stack) - 1, lambda k: stack[k][0] != stack[len(stack)-1][1] - 1 and PL[stack[k][0]] == _h_PL[stack[k][0]] and PR[stack[k][0]] == _h_PR[stack[k][0]]))",
            "@C04 implies(len(stack) == len(_h_stack) + 1, forall(0, len(points), lambda i: %s))" % dominates("(stack[len(stack)-1][1] - 1)", "i"),
            "@C04 implies(len(stack) == len(_h_stack) + 1, stack[len(stack)-2][0] == stack[len(stack)-1][1] - 1 and stack[len(stack)-1][0] == _h_stack[len(_h_stack)-1][0])",
            "@C04 implies(len(stack) == len(_h_stack) + 1, forall(0, len(_h_stack) - 1, lambda k: forall(0, len(points), lambda i: implies(stack[k][0] > 0, %s))))" % dominates("stack[k][0]", "i"),
            "@C04 implies(len(stack) == len(_h_stack) + 1 and stack[len(stack)-1][0] > 0, forall(0, len(points), lambda i: %s))" % dominates("stack[len(stack)-1][0]", "i"),
        ],
        # (T) termination, linear in n: V0 = 2n-3
        var="2 * (%s - 1 - %s) - %s" % (N, FRONT, SZ),
    )},
)


# ================================================================== C01 / C05: fixed-size RDP (mode U)
STK = "Seq[Tup[Real,Int,Int]]"
SZ3 = "len(stack)"
WSUM = "(SumRange(stack[:, 2], 0, len(stack)) - SumRange(stack[:, 1], 0, len(stack)) - 2 * len(stack))"


def state_ok(stack="stack", reduced="reduced"):
    """the refinement state shared by _rdp_fixed and _grdp: `reduced` is a duplicate-free index set containing both ends; the work list
    holds pairwise disjoint segments with interior points none of which is retained yet; the interior points of the pending segments are
    exactly the points not retained (counting identity)"""
    st, rd = stack, reduced
    wsum = WSUM.replace("stack", st)
    return [
        "len(%s) >= 2" % rd,
        "forall(0, len(%s), lambda m: 0 <= %s[m] and %s[m] <= len(points) - 1)" % (rd, rd, rd),
        "forall2(0, len(%s), lambda a, b: %s[a] != %s[b])" % (rd, rd, rd),
        "exists(0, len(%s), lambda m: %s[m] == 0)" % (rd, rd),
        "exists(0, len(%s), lambda m: %s[m] == len(points) - 1)" % (rd, rd),
        "forall(0, len(%s), lambda k: 0 <= %s[k][1] and %s[k][2] <= len(points) and %s[k][2] - %s[k][1] > 2)" % (st, st, st, st, st),
        "forall(0, len(%s), lambda k: forall(0, len(%s), lambda m: %s[m] <= %s[k][1] or %s[m] >= %s[k][2] - 1))" % (st, rd, rd, st, rd, st),
        "forall2(0, len(%s), lambda a, b: %s[a][2] - 1 <= %s[b][1] or %s[b][2] - 1 <= %s[a][1])" % (st, st, st, st, st),
        "len(points) - len(%s) == %s" % (rd, wsum),
    ]


DISTFN = dict(params={"a0": PTS, "a1": "Tup[Real,Real]", "a2": "Tup[Real,Real]"}, returns="Seq[Real]",
              requires=[], returns_expr="ufa('DistP', 'Real', len(a0), _self, a0, a1, a2)",
              ensures=["forall(0, len(a0), lambda i: result[i] >= 0)"])
for _o, _ps in (("order_triangle", True), ("order_area", True), ("order_segment", False)):
    _p = {"pt": PTS, "index": "Int"}
    if _ps:
        _p["distance_points"] = "Fn"
    C["kneeliverse.rdp." + _o] = dict(
        mode="U", summary=True, params=_p, returns="Tup[Real,Real]",
        requires=["1 <= index and index <= len(pt) - 2"],
        ensures=["result[0] == uf('Score_%s', 'Real', pt[0:index+1])" % _o, "result[1] == uf('Score_%s', 'Real', pt[index:len(pt)])" % _o],
    )

C["kneeliverse.rdp._rdp_fixed"] = dict(
    mode="U", owner="C01",
    params={"points": PTS, "length": "Int", "distance_points": "Fn", "order": ORDER, "stack": STK, "reduced": "Seq[Int]"},
    list_params=["stack", "reduced"], modifies=["stack", "reduced"], returns="Seq[Int]", returns_list=True,
    callables={"distance_points": DISTFN},
    requires=["len(points) >= 2"] + state_ok(),
    post_hints=[
        "len(result) == len(reduced) and len(result) >= 2",
        "forall(0, len(result), lambda k: 0 <= result[k] and result[k] <= len(points) - 1)",
        "exists(0, len(result), lambda j: result[j] == 0)",
        "exists(0, len(result), lambda j: result[j] == len(points) - 1)",
        "forall2(0, len(result), lambda a, b: result[a] <= result[b])",
        "result[0] <= 0",
        "result[len(result)-1] >= len(points) - 1",
    ],
    ensures=[
        # (W) sorted, duplicate-free, both ends, in range
        "forall2(0, len(result), lambda a, b: result[a] < result[b])",
        "result[0] == 0 and result[len(result)-1] == len(points) - 1",
        # (N) exact size: one index per refinement step until the budget or the curve is exhausted
        "len(result) == min2(len(old(reduced)) + max2(old(length), 0), len(points))",
        "seq_eq(result, reduced)",
    ],
    loops={0: dict(
        inv=state_ok() + [
            "length <= old(length)",
            "implies(old(length) <= 0, length == old(length))",
            "implies(old(length) > 0, length >= 0)",
            "len(reduced) == len(old(reduced)) + (old(length) - length)",
            "pigeonhole(reduced, len(points))",
        ],
        # (T) one refinement step per iteration, at most `length` of them
        var="length",
    )},
)


_RF = dict(
    function="kneeliverse.rdp.rdp_fixed", mode="U", owner="C01",
    params={"points": PTS, "length": "Int", "distance": DIST, "order": ORDER},
    returns="Tup[Seq[Int],Seq[Tup[Int,Int]]]",
    locals={"stack": STK, "reduced": "Seq[Int]"},
    ensures=[
        "len(result[0]) == min2(max2(old(length), 2), len(points))",                                # C05 (N): exact size
        "result[0][0] == 0 and result[0][len(result[0])-1] == len(points) - 1",
        "forall2(0, len(result[0]), lambda a, b: result[0][a] < result[0][b])",
        "len(result[1]) == len(result[0]) - 1",
        "forall(0, len(result[1]), lambda k: result[1][k][0] == result[0][k] and result[1][k][1] == result[0][k+1] - result[0][k] - 1)",
    ],
)
C["kneeliverse.rdp.rdp_fixed#n>2"] = dict(_RF, requires=["len(points) > 2"])
C["kneeliverse.rdp.rdp_fixed#n=2"] = dict(_RF, requires=["len(points) == 2"])


# ================================================================== C01 / C06: global RDP (mode U)
from contracts.evaluation import seg_err as _seg_err, TSS as _TSS
SORTED_RED = "forall2(0, len(reduced), lambda a, b: reduced[a] < reduced[b])"
C["kneeliverse.rdp._grdp"] = dict(
    mode="U", owner="C01",
    params={"points": PTS, "t": "Real", "cost": METRIC, "order": ORDER, "distance_points": "Fn", "stack": STK, "reduced": "Seq[Int]"},
    list_params=["stack", "reduced"], modifies=["stack", "reduced"],
    returns="Tup[Seq[Int],%s]" % STK,
    callables={"distance_points": DISTFN},
    use={"kneeliverse.evaluation.compute_global_cost": "kneeliverse.evaluation.compute_global_cost#shared"},
    requires=["len(points) >= 2", SORTED_RED, "reduced[0] == 0 and reduced[len(reduced)-1] == len(points) - 1"] + state_ok(),
    ensures=state_ok("result[1]", "result[0]") + [
        "forall2(0, len(result[0]), lambda a, b: result[0][a] < result[0][b])",
        "seq_eq(result[0], reduced)",
        "len(result[0]) >= len(old(reduced))",
    ],
    loops={0: dict(
        inv=[c for c in state_ok() if not c.startswith("exists(")] + [
            SORTED_RED,
            "reduced[0] == 0 and reduced[len(reduced)-1] == len(points) - 1",
            "pigeonhole(reduced, len(points))",
            "len(reduced) >= len(old(reduced))",
            # the shared cost cache stays consistent with the curve (precondition of every global-cost evaluation)
            "forall(0, len(points), lambda l: forall(0, len(points), lambda r: implies((l, r) in cache, cache[(l, r)] == %s and cache[(l, r)] >= 0)))" % _seg_err("l", "r"),
            "implies('tss' in cache, cache['tss'] == %s)" % _TSS,
        ],
        # (T) every iteration retains one more point: at most n-2 iterations
        var="len(points) - len(reduced)",
    )},
)


_WR = [
    "result[0][0] == 0 and result[0][len(result[0])-1] == len(points) - 1",
    "forall2(0, len(result[0]), lambda a, b: result[0][a] < result[0][b])",
    "len(result[1]) == len(result[0]) - 1",
    "forall(0, len(result[1]), lambda k: result[1][k][0] == result[0][k] and result[1][k][1] == result[0][k+1] - result[0][k] - 1)",
]
_GR = dict(
    function="kneeliverse.rdp.grdp", mode="U", owner="C01",
    params={"points": PTS, "t": "Real", "distance": DIST, "cost": METRIC, "order": ORDER},
    returns="Tup[Seq[Int],Seq[Tup[Int,Int]]]", locals={"stack": STK, "reduced": "Seq[Int]"}, ensures=_WR,
)
C["kneeliverse.rdp.grdp#n>2"] = dict(_GR, requires=["len(points) > 2"])
C["kneeliverse.rdp.grdp#n=2"] = dict(_GR, requires=["len(points) == 2"])
_MP = dict(
    function="kneeliverse.rdp.mp_grdp", mode="U", owner="C01",
    params={"points": PTS, "t": "Real", "min_points": "Int", "distance": DIST, "cost": METRIC, "order": ORDER},
    returns="Tup[Seq[Int],Seq[Tup[Int,Int]]]", locals={"stack": STK, "reduced": "Seq[Int]"},
    ensures=_WR + ["len(result[0]) >= min2(min_points, len(points))"],          # C06: at least min(m, n) points
)
C["kneeliverse.rdp.mp_grdp#n>2"] = dict(_MP, requires=["len(points) > 2"])
C["kneeliverse.rdp.mp_grdp#n=2"] = dict(_MP, requires=["len(points) == 2"])


# union of the two verified specifications (#n>2, #n=2): same postconditions for every curve with n >= 2
C["kneeliverse.rdp.grdp"] = dict(_GR, requires=["len(points) >= 2"], derived_from=["kneeliverse.rdp.grdp#n>2", "kneeliverse.rdp.grdp#n=2"])
C["kneeliverse.rdp.rdp_fixed"] = dict(_RF, requires=["len(points) >= 2"], derived_from=["kneeliverse.rdp.rdp_fixed#n>2", "kneeliverse.rdp.rdp_fixed#n=2"])
C["kneeliverse.rdp.min_point_rdp"] = dict(
    mode="U", owner="C01",
    params={"points": PTS, "t": "Seq[Real]", "min_points": "Int"}, list_params=["t"],
    returns="Tup[Seq[Int],Seq[Tup[Int,Int]]]",
    requires=["len(points) >= 2"],
    ensures=_WR + ["len(result[0]) >= min2(min_points, len(points))"],
    loops={0: dict(inv=["True"])},
)
