"""Sidecar contracts for kneeliverse.rdp (the repository file stays untouched)."""
C = {}

REDUCED = [
    "len(reduced) >= 2",
    "reduced[0] == 0",
    "forall2(0, len(reduced), lambda a, b: reduced[a] < reduced[b])",
]

# ------------------------------------------------------------------ C07: mapping (sorted=True)
C["kneeliverse.rdp.mapping"] = dict(
    params={"indexes": "Seq[Int]", "reduced": "Seq[Int]", "removed": "Seq[Tup[Real,Real]]", "sorted": "Bool"},
    returns="Seq[Int]",
    locals={"rv": "Seq[Int]"},
    requires=REDUCED + [
        "sorted == True",
        "len(removed) == len(reduced) - 1",
        "forall(0, len(removed), lambda k: removed[k][0] == reduced[k] and removed[k][1] == reduced[k+1] - reduced[k] - 1)",
        "forall(0, len(indexes), lambda k: 0 <= indexes[k] and indexes[k] < len(reduced))",
        "forall2(0, len(indexes), lambda a, b: indexes[a] <= indexes[b])",
    ],
    ensures=[
        "len(result) == len(indexes)",
        "forall(0, len(result), lambda k: result[k] == reduced[indexes[k]])",
    ],
    loops={
        0: dict(inv=[
            "0 <= j and j <= len(sorted_removed)",
            "count == reduced[j] - j",
            "len(rv) == _it0",
            "implies(_it0 > 0, j <= indexes[_it0 - 1])",
            "implies(_it0 == 0, j == 0)",
            "forall(0, _it0, lambda k: rv[k] == reduced[indexes[k]])",
        ]),
        1: dict(inv=[
            "0 <= j and j <= len(sorted_removed)",
            "j <= i",
            "count == reduced[j] - j",
        ], var="len(sorted_removed) - j"),
    },
)

C["kneeliverse.rdp.compute_removed_points"] = dict(
    params={"points": "Seq[Tup[Real,Real]]", "reduced": "Seq[Int]"},
    returns="Seq[Tup[Int,Int]]",
    locals={"removed": "Seq[Tup[Int,Int]]"},
    requires=[
        "len(reduced) >= 1",
        "forall2(0, len(reduced), lambda a, b: reduced[a] < reduced[b])",
        "reduced[0] >= 0",
        "reduced[len(reduced)-1] <= len(points) - 1",
    ],
    ensures=[
        "len(result) == len(reduced) - 1",
        "forall(0, len(result), lambda k: result[k][0] == reduced[k] and result[k][1] == reduced[k+1] - reduced[k] - 1)",
    ],
    loops={
        0: dict(inv=[
            "len(removed) == _it0",
            "left == reduced[_it0]",
            "forall(0, _it0, lambda k: removed[k][0] == reduced[k] and removed[k][1] == reduced[k+1] - reduced[k] - 1)",
        ]),
    },
)
