"""Sidecar contracts for kneeliverse.convex_hull (C18: lower / upper hull chains), mode R."""
C = {}
PTS = "Seq[Tup[Real,Real]]"
X = lambda i: "points[%s][0]" % i
Y = lambda i: "points[%s][1]" % i


def ccw(a, b, c):
    """orientation of the triple of curve points with indices a, b, c (the library's _ccw formula): > 0 counter-clockwise"""
    return "((%s - %s) * (%s - %s) - (%s - %s) * (%s - %s))" % (X(b), X(a), Y(c), Y(a), X(c), X(a), Y(b), Y(a))


TOP = "stack[len(stack)-1]"
TOP2 = "stack[len(stack)-2]"
HTOP = "_h_stack[len(_h_stack)-1]"


def chain(S, m, sgn):
    """S[0..m) is a strictly increasing chain starting at 0 whose consecutive edges turn strictly (counter-)clockwise and such that
    every curve point between two consecutive chain vertices lies on or above (below) that edge"""
    return [
        "%s >= 1 and %s[0] == 0" % (m, S),
        "forall2(0, %s, lambda a, b: %s[a] < %s[b])" % (m, S, S),
        "forall(0, %s, lambda j: 0 <= %s[j] and %s[j] < len(points))" % (m, S, S),
        "forall(0, %s - 2, lambda j: %s * CCW(%s[j], %s[j+1], %s[j+2]) > 0)" % (m, sgn, S, S, S),
        "forall(0, %s - 1, lambda j: forall(0, len(points), lambda k: implies(%s[j] < k and k < %s[j+1], %s * CCW(%s[j], %s[j+1], k) >= 0)))" % (m, S, S, sgn, S, S),
    ]


def hull_contract(fn, sgn, call):
    """sgn = +1: lower hull (guard ccw(S[-2], S[-1], i) <= 0); sgn = -1: upper hull (the library evaluates ccw(i, S[-1], S[-2]), which
    equals ccw(S[-2], S[-1], i) by the cyclic symmetry of the orientation - proved as the hint 'guard form')"""
    s = "%d" % sgn
    return dict(
        mode="R", owner="C18",
        params={"points": PTS}, returns="Seq[Int]", locals={"stack": "Seq[Int]"},
        spec_funs={"CCW": (["a", "b", "c"], "Real", ccw("a", "b", "c"))},
        requires=["len(points) >= 2", "forall2(0, len(points), lambda a, b: %s < %s)" % (X("a"), X("b"))],
        ensures=chain("result", "len(result)", s) + ["result[len(result)-1] == len(points) - 1"],
        loops={
            0: dict(inv=chain("stack", "len(stack)", s) + ["len(stack) >= 2", "%s == 1 + _it0" % TOP]),
            1: dict(
                inv=chain("stack", "len(stack)", s) + [
                    "%s < i" % TOP,
                    "forall(0, len(points), lambda k: implies(%s < k and k < i, %s * CCW(%s, i, k) >= 0))" % (TOP, s, TOP),
                ],
                var="len(stack)",
                hints=[
                    "len(stack) == len(_h_stack) - 1 and len(stack) >= 1 and %s < %s and %s < i" % (TOP, HTOP, HTOP),
                    "forall(0, len(stack), lambda j: stack[j] == _h_stack[j])",
                    "%s * CCW(%s, %s, i) <= 0" % (s, TOP, HTOP),                                                  # the guard that led to the pop
                    "%s < %s and %s < %s" % (X(TOP), X(HTOP), X(HTOP), X("i")),
                    "forall(0, len(points), lambda k: implies(%s < k and k < %s, %s < %s and %s < %s))" % (TOP, HTOP, X(TOP), X("k"), X("k"), X(HTOP)),
                    "forall(0, len(points), lambda k: implies(%s < k and k < i, %s < %s and %s < %s))" % (HTOP, X(HTOP), X("k"), X("k"), X("i")),
                    "forall(0, len(points), lambda k: implies(%s < k and k < %s, %s * CCW(%s, %s, k) >= 0))" % (TOP, HTOP, s, TOP, HTOP),   # old top edge
                    "forall(0, len(points), lambda k: implies(%s < k and k < i, %s * CCW(%s, i, k) >= 0))" % (HTOP, s, HTOP),                # old W4
                    # the three ranges of k for the new top
                    "forall(0, len(points), lambda k: implies(%s < k and k < %s, %s * CCW(%s, i, k) >= 0))" % (TOP, HTOP, s, TOP),
                    "%s * CCW(%s, i, %s) >= 0" % (s, TOP, HTOP),
                    "forall(0, len(points), lambda k: implies(%s < k and k < i, %s * CCW(%s, i, k) >= 0))" % (HTOP, s, TOP),
                ],
            ),
        },
    )


C["kneeliverse.convex_hull.graham_scan_lower"] = hull_contract("graham_scan_lower", +1, None)
C["kneeliverse.convex_hull.graham_scan_upper"] = hull_contract("graham_scan_upper", -1, None)
