"""Sidecar contracts for kneeliverse.menger (C17, C09)."""
C = {}
P = "Tup[Real,Real]"


def cross(f, g, h):
    return "((%s[0]-%s[0])*(%s[1]-%s[1]) - (%s[1]-%s[1])*(%s[0]-%s[0]))" % (g, f, h, g, g, f, h, g)


def d2(p, q):
    return "(sq(%s[0]-%s[0]) + sq(%s[1]-%s[1]))" % (p, q, p, q)


ABC = "%s * %s * %s" % (d2("g", "f"), d2("h", "g"), d2("f", "h"))
# reciprocal circumradius kappa of the triangle f,g,h:  kappa = 4*Area/(|fg||gh||hf|) = 2|cross|/(...)  <=>  kappa >= 0 and
# kappa^2 * |fg|^2 |gh|^2 |hf|^2 = 4 cross^2  (division- and root-free form)
C["kneeliverse.menger.menger_curvature"] = dict(
    mode="R", owner="C17",
    params={"f": P, "g": P, "h": P}, returns="Real",
    requires=["%s > 0" % d2("g", "f"), "%s > 0" % d2("h", "g"), "%s > 0" % d2("f", "h")],
    post_hints=["dem > 0", "sq(dem) == temp", "temp == %s" % ABC, "nom >= 0", "sq(nom) == 4 * sq(%s)" % cross("f", "g", "h"),
                "result * dem == nom", "sq(result * dem) == sq(nom)", "sq(result) * sq(dem) == sq(nom)",
                "sq(result) * temp == 4 * sq(%s)" % cross("f", "g", "h")],
    ensures=[
        "result >= 0",
        "sq(result) * (%s) == 4 * sq(%s)" % (ABC, cross("f", "g", "h")),
        "iff(result == 0, %s == 0)" % cross("f", "g", "h"),
    ],
)

LEMMAS = {}
# symmetry: the contract determines the value uniquely (>= 0 and a fixed square), and both the squared cross product and the
# product of squared side lengths are invariant under every permutation of the three points (generators: swap, rotation)
def _post(r, f, g, h, K):
    return ["%s >= 0" % r, "%s == %s * %s * %s" % (K, d2(g, f), d2(h, g), d2(f, h)), "sq(%s) * %s == 4 * sq(%s)" % (r, K, cross(f, g, h))]


LEMMAS["menger_symmetric"] = dict(
    context="kneeliverse.menger.menger_curvature", owner="C17", mode="R",
    vars={"f": P, "g": P, "h": P, "r1": "Real", "r2": "Real", "r3": "Real", "K1": "Real", "K2": "Real", "K3": "Real",
          "A": "Real", "B": "Real", "D": "Real"},
    hyps=["A == %s" % d2("g", "f"), "B == %s" % d2("h", "g"), "D == %s" % d2("f", "h"), "A > 0", "B > 0", "D > 0"]
         + _post("r1", "f", "g", "h", "K1") + _post("r2", "g", "f", "h", "K2") + _post("r3", "g", "h", "f", "K3"),
    steps=["sq(%s) == sq(%s)" % (cross("f", "g", "h"), cross("g", "f", "h")),
           "sq(%s) == sq(%s)" % (cross("f", "g", "h"), cross("g", "h", "f")),
           "%s == A" % d2("f", "g"), "%s == B" % d2("g", "h"), "%s == D" % d2("h", "f"),
           "K1 == A * B * D", "K2 == A * D * B", "K3 == B * D * A", "K2 == K1", "K3 == K1", "A * B > 0", "K1 > 0",
           "sq(r2) * K1 == 4 * sq(%s)" % cross("g", "f", "h"), "sq(r3) * K1 == 4 * sq(%s)" % cross("g", "h", "f"),
           "sq(r1) * K1 == sq(r2) * K1", "sq(r1) * K1 == sq(r3) * K1",
           "(sq(r1) - sq(r2)) * K1 == sq(r1) * K1 - sq(r2) * K1", "(sq(r1) - sq(r3)) * K1 == sq(r1) * K1 - sq(r3) * K1",
           "(sq(r1) - sq(r2)) * K1 == 0", "sq(r1) - sq(r2) == 0", "(sq(r1) - sq(r3)) * K1 == 0", "sq(r1) - sq(r3) == 0",
           "(r1 - r2) * (r1 + r2) == 0", "(r1 - r3) * (r1 + r3) == 0"],
    goal=["r1 == r2", "r1 == r3"],
)
