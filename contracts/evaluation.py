"""Sidecar contracts for kneeliverse.evaluation (C19, C15)."""
C = {}
PTS = "Seq[Tup[Real,Real]]"
CM = "Seq[Tup[Int,Int]]"
CMREQ = ["len(cm) == 2", "cm[0][0] >= 0 and cm[0][1] >= 0 and cm[1][0] >= 0 and cm[1][1] >= 0"]
TP, FP, FN, TN = "cm[0][0]", "cm[0][1]", "cm[1][0]", "cm[1][1]"

C["kneeliverse.evaluation.accuracy"] = dict(
    mode="R", owner="C19", params={"cm": CM}, returns="Real",
    requires=CMREQ + ["%s + %s + %s + %s > 0" % (TP, FP, FN, TN)],
    ensures=["result == (%s + %s) / (%s + %s + %s + %s)" % (TP, TN, TP, TN, FP, FN), "0 <= result and result <= 1",
             "implies(%s == 0 and %s == 0, result == 1)" % (FP, FN)],
)
C["kneeliverse.evaluation.f1score"] = dict(
    mode="R", owner="C19", params={"cm": CM}, returns="Real",
    requires=CMREQ + ["2 * %s + %s + %s > 0" % (TP, FP, FN)],
    ensures=["result == 2.0 * %s / (2 * %s + %s + %s)" % (TP, TP, FP, FN), "0 <= result and result <= 1",
             "implies(%s == 0 and %s == 0, result == 1)" % (FP, FN)],
)
PROD = "((%s + %s) * (%s + %s) * (%s + %s) * (%s + %s))" % (TP, FP, TP, FN, TN, FP, TN, FN)
C["kneeliverse.evaluation.mcc"] = dict(
    mode="R", owner="C19", params={"cm": CM}, returns="Real",
    requires=CMREQ + ["%s > 0" % PROD],
    post_hints=["d > 0", "sq(d) == %s" % PROD, "result * d == n", "sq(result) * sq(d) == sq(n)", "sq(n) <= %s" % PROD, "sq(result) * sq(d) <= sq(d)",
                "(sq(result) - 1) * sq(d) <= 0", "sq(d) > 0", "sq(result) <= 1"],
    ensures=["-1 <= result and result <= 1",
             "implies(%s == 0 and %s == 0, result == 1)" % (FP, FN)],
)

# ------------------------------------------------------------------ cm: accounting identities
# pigeonhole (assumed lemma, Mathlib: Fintype.card_le_of_injective): pairwise distinct entries within [0, m) => length <= m
C["kneeliverse.evaluation.cm"] = dict(
    mode="R", owner="C19",
    params={"points": PTS, "knees": "Seq[Int]", "expected": PTS, "t": "Real"}, returns=CM,
    locals={"used_knees": "Seq[Int]"},
    requires=["len(points) >= 1", "len(knees) >= 1", "len(expected) >= 1",
              "forall(0, len(knees), lambda k: 0 <= knees[k] and knees[k] < len(points))",
              "exists(0, len(points), lambda a: exists(0, len(points), lambda b: points[a][0] != points[b][0]))",
              "len(knees) + len(expected) <= len(points)"],
    ensures=["len(result) == 2",
             "result[0][0] + result[1][0] == len(expected)",          # TP + FN = |E|
             "result[0][0] + result[0][1] == len(knees)",             # TP + FP = |K|
             "result[0][0] + result[0][1] + result[1][0] + result[1][1] == len(points)",
             "result[0][0] >= 0 and result[0][1] >= 0 and result[1][0] >= 0 and result[1][1] >= 0"],
    loops={0: dict(inv=[
        "tp >= 0 and fn >= 0 and tp + fn == _it0",
        "len(used_knees) == tp",
        "forall(0, len(used_knees), lambda k: 0 <= used_knees[k] and used_knees[k] < len(knees))",
        "forall2(0, len(used_knees), lambda a, b: used_knees[a] != used_knees[b])",
        "pigeonhole(used_knees, len(knees))",
    ])},
)
