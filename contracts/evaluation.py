"""Sidecar contracts for kneeliverse.evaluation (C19, C15)."""
C = {}
PTS = "Seq[Tup[Real,Real]]"
CM = "Seq[Tup[Int,Int]]"
CMREQ = ["len(cm) == 2", "cm[0][0] >= 0 and cm[0][1] >= 0 and cm[1][0] >= 0 and cm[1][1] >= 0"]
TP, FP, FN, TN = "cm[0][0]", "cm[0][1]", "cm[1][0]", "cm[1][1]"

C["kneeliverse.evaluation.accuracy"] = dict(
    mode="R", owner="C19", params={"cm": CM}, returns="Real",
    requires=CMREQ + ["%s + %s + %s + %s > 0" % (TP, FP, FN, TN)],
    ensures=["result == (%s + %s) / (%s + %s + %s + %s)" % (TP, TN, TP, TN, FP, FN), "0 <= result and result <= 1",
             "implies(%s == 0 and %s == 0, result == 1)" % (FP, FN)],
)
C["kneeliverse.evaluation.f1score"] = dict(
    mode="R", owner="C19", params={"cm": CM}, returns="Real",
    requires=CMREQ + ["2 * %s + %s + %s > 0" % (TP, FP, FN)],
    ensures=["result == 2.0 * %s / (2 * %s + %s + %s)" % (TP, TP, FP, FN), "0 <= result and result <= 1",
             "implies(%s == 0 and %s == 0, result == 1)" % (FP, FN)],
)
PROD = "((%s + %s) * (%s + %s) * (%s + %s) * (%s + %s))" % (TP, FP, TP, FN, TN, FP, TN, FN)
C["kneeliverse.evaluation.mcc"] = dict(
    mode="R", owner="C19", params={"cm": CM}, returns="Real",
    requires=CMREQ + ["%s > 0" % PROD],
    post_hints=["d > 0", "sq(d) == %s" % PROD, "result * d == n", "sq(result) * sq(d) == sq(n)", "sq(n) <= %s" % PROD, "sq(result) * sq(d) <= sq(d)",
                "(sq(result) - 1) * sq(d) <= 0", "sq(d) > 0", "sq(result) <= 1"],
    ensures=["-1 <= result and result <= 1",
             "implies(%s == 0 and %s == 0, result == 1)" % (FP, FN)],
)

# ------------------------------------------------------------------ cm: accounting identities
# pigeonhole (assumed lemma, Mathlib: Fintype.card_le_of_injective): pairwise distinct entries within [0, m) => length <= m
C["kneeliverse.evaluation.cm"] = dict(
    mode="R", owner="C19",
    params={"points": PTS, "knees": "Seq[Int]", "expected": PTS, "t": "Real"}, returns=CM,
    locals={"used_knees": "Seq[Int]"},
    requires=["len(points) >= 1", "len(knees) >= 1", "len(expected) >= 1",
              "forall(0, len(knees), lambda k: 0 <= knees[k] and knees[k] < len(points))",
              "exists(0, len(points), lambda a: exists(0, len(points), lambda b: points[a][0] != points[b][0]))",
              "len(knees) + len(expected) <= len(points)"],
    ensures=["len(result) == 2",
             "result[0][0] + result[1][0] == len(expected)",          # TP + FN = |E|
             "result[0][0] + result[0][1] == len(knees)",             # TP + FP = |K|
             "result[0][0] + result[0][1] + result[1][0] + result[1][1] == len(points)",
             "result[0][0] >= 0 and result[0][1] >= 0 and result[1][0] >= 0 and result[1][1] >= 0"],
    loops={0: dict(inv=[
        "tp >= 0 and fn >= 0 and tp + fn == _it0",
        "len(used_knees) == tp",
        "forall(0, len(used_knees), lambda k: 0 <= used_knees[k] and used_knees[k] < len(knees))",
        "forall2(0, len(used_knees), lambda a, b: used_knees[a] != used_knees[b])",
        "pigeonhole(used_knees, len(knees))",
    ])},
)


# ================================================================== C15: global reconstruction cost and its cache
METRIC = "Enum[kneeliverse.metrics.Metrics]"
V = "Seq[Real]"
NP = "len(points)"

# summaries (mode U): deterministic functions of the argument contents; the partial cost is a sum of squares / absolute values
C["kneeliverse.linear_fit.linear_fit_transform_points"] = dict(
    mode="U", summary=True, params={"points": PTS, "vertical": "Bool"}, returns=V,
    requires=["len(points) >= 1"], returns_expr="ufa('FitTransform', 'Real', len(points), points)", ensures=[])
C["kneeliverse.evaluation.compute_partial_cost"] = dict(
    mode="U", summary=True, params={"y": V, "y_hat": V, "cost": METRIC, "eps": "Real"}, returns="Real",
    requires=["len(y) == len(y_hat)"],
    ensures=["result == uf('PartialCost', 'Real', y, y_hat, cost)", "result >= 0"])


def seg_err(l, r):
    """error the library's primitives assign to the segment of points l..r (both ends included); <= 2 points contribute 0"""
    sl = "points[%s:(%s) + 1]" % (l, r)
    return ("ite((%s) - (%s) + 1 <= 2, 0.0, uf('PartialCost', 'Real', %s[:, 1], ufa('FitTransform', 'Real', (%s) - (%s) + 1, %s), cost))"
            % (r, l, sl, r, l, sl))


TSS = "Sum(0, %s, lambda k: sq(points[k][1] - Sum(points[:, 1]) / %s))" % (NP, NP)


def cache_ok(c):
    return ["forall(0, %s, lambda l: forall(0, %s, lambda r: implies((l, r) in %s, %s[(l, r)] == %s and %s[(l, r)] >= 0)))" % (NP, NP, c, c, seg_err("l", "r"), c),
            "implies('tss' in %s, %s['tss'] == %s)" % (c, c, TSS)]


def combine(S, total, tss):
    """the statement's accumulation: R2 = 1 - rss/tss clipped at 0; rmsle/rmspe = sqrt(S/total); rpd/smape = S/total"""
    r2 = "max2(ite(%s == 0, 1.0 - %s, 1.0 - %s / %s), 0.0)" % (tss, S, S, tss)
    return ("ite(old(cost) is metrics.Metrics.r2, %s, ite(old(cost) is metrics.Metrics.rmsle or old(cost) is metrics.Metrics.rmspe, "
            "max2(sqrt(%s / %s), 0.0), max2(%s / %s, 0.0)))" % (r2, S, total, S, total))


# compute_cost: verified against its body; the divisor counts every interior breakpoint once per adjoining segment
TSSV = "ite('tss' in old(cache), old(cache)['tss'], %s)" % TSS
C["kneeliverse.evaluation.compute_cost"] = dict(
    mode="R", owner="C15",
    params={"points": PTS, "segment_errors": V, "cost": METRIC, "cache": "Dict"}, returns="Real",
    modifies=["cache"],
    requires=["len(points) >= 1", "len(segment_errors) >= 1", "forall(0, len(segment_errors), lambda k: segment_errors[k] >= 0)"],
    ensures=[
        "result == %s" % combine("Sum(old(segment_errors))", "(%s + len(segment_errors) - 1)" % NP, TSSV),
        "result >= 0",
        # frame of the cache: segment entries untouched; 'tss' only ever set to the total sum of squares of the curve
        "forall(0, %s, lambda l: forall(0, %s, lambda r: ((l, r) in cache) == ((l, r) in old(cache)) and cache[(l, r)] == old(cache)[(l, r)]))" % (NP, NP),
        "implies('tss' in old(cache), 'tss' in cache and cache['tss'] == old(cache)['tss'])",
        "implies('tss' in cache and not ('tss' in old(cache)), cache['tss'] == %s)" % TSS,
    ],
)

RED = ["len(reduced) >= 2", "reduced[0] >= 0", "reduced[len(reduced)-1] <= %s - 1" % NP,
       "forall2(0, len(reduced), lambda a, b: reduced[a] < reduced[b])"]
GC_RESULT = combine("Sum(0, len(reduced) - 1, lambda k: %s)" % seg_err("reduced[k]", "reduced[k+1]"),
                    "(%s + len(reduced) - 2)" % NP, "TSSC")


def gc_contract(shared):
    cache_tss = "ite('tss' in old(cache), old(cache)['tss'], %s)" % TSS if shared else TSS
    c = dict(
        function="kneeliverse.evaluation.compute_global_cost", mode="U", owner="C15",
        params={"points": PTS, "reduced": "Seq[Int]", "cost": METRIC, "cache": "Dict" if shared else "None"}, returns="Real",
        locals={"segment_errors": V},
        requires=["len(points) >= 2"] + RED + (cache_ok("cache") if shared else []),
        ensures=["result == %s" % GC_RESULT.replace("TSSC", cache_tss), "result >= 0"],
        loops={0: dict(inv=[
            "left == reduced[_it0]",
            "len(segment_errors) == len(reduced) - 1",
            "forall(0, _it0, lambda k: segment_errors[k] == %s)" % seg_err("reduced[k]", "reduced[k+1]"),
            "forall(0, len(segment_errors), lambda k: segment_errors[k] >= 0)",
        ] + cache_ok("cache") + ([
            "forall(0, %s, lambda l: forall(0, %s, lambda r: implies((l, r) in old(cache), (l, r) in cache and cache[(l, r)] == old(cache)[(l, r)])))" % (NP, NP),
            "('tss' in cache) == ('tss' in old(cache)) and implies('tss' in cache, cache['tss'] == old(cache)['tss'])",
        ] if shared else ["not ('tss' in cache)"]))},
    )
    if shared:
        c["modifies"] = ["cache"]
        # cache transparency: the enlarged cache is still consistent with the curve, old entries are unchanged, and the result above
        # does not mention the cache (apart from reusing a consistent 'tss') - so any query sequence sharing one cache returns what
        # fresh caches return (induction over the sequence with invariant CacheOK; a lemma over this contract)
        c["ensures"] = c["ensures"] + cache_ok("cache") + [
            "forall(0, %s, lambda l: forall(0, %s, lambda r: implies((l, r) in old(cache), (l, r) in cache and cache[(l, r)] == old(cache)[(l, r)])))" % (NP, NP)]
    return c


C["kneeliverse.evaluation.compute_global_cost#shared"] = gc_contract(True)
C["kneeliverse.evaluation.compute_global_cost#fresh"] = gc_contract(False)


# ------------------------------------------------------------------ C19: MAE / MSE / RMSE / RMSPE (nearest-neighbour matching)
STRAT = "Enum[kneeliverse.evaluation.Strategy]"
_KP = "points[knees]"
_MATCH_REQ = ["len(knees) >= 1", "len(expected) >= 1",
              "forall(0, len(knees), lambda k: 0 <= knees[k] and knees[k] < len(points))"]
_MATCH_PARAMS = {"points": PTS, "knees": "Seq[Int]", "expected": PTS, "s": STRAT}
_D = lambda p, q: "sqrt(sq(%s[0] - %s[0]) + sq(%s[1] - %s[1]))" % (q, p, q, p)      # np.linalg.norm(b - p, axis=1)[q]
_TERMS = {"mae": lambda p, q: "(absr(%s[0] - %s[0]) + absr(%s[1] - %s[1]))" % (p, q, p, q),
          "mse": lambda p, q: "(sq(%s[0] - %s[0]) + sq(%s[1] - %s[1]))" % (p, q, p, q)}


def _matching(fname, strat, a, b):
    """result == (Sum over the rows a[j] of the selected side of term(a[j], b[M[j]])) / (2 |a|), M[j] (ghost) a nearest row of the other side"""
    term = _TERMS[fname]
    tj = term("(%s)[j]" % a, "(%s)[M[j]]" % b)
    return dict(
        function="kneeliverse.evaluation.%s" % fname, mode="R", owner="C19",
        params=_MATCH_PARAMS, returns="Real", ghost_vars={"M": "Seq[Int]"},
        requires=_MATCH_REQ + ["s is Strategy.%s" % strat],
        ensures=["forall(0, len(%s), lambda j: 0 <= M[j] and M[j] < len(%s))" % (a, b),
                 "forall(0, len(%s), lambda j: forall(0, len(%s), lambda q: %s <= %s))" % (a, b, _D("(%s)[j]" % a, "(%s)[M[j]]" % b), _D("(%s)[j]" % a, "(%s)[q]" % b)),
                 "result == Sum(0, len(%s), lambda j: %s) / (len(%s) * 2.0)" % (a, tj, a),
                 "result >= 0"],
        loops={0: dict(
            inv=["forall(0, _it0, lambda j: 0 <= M[j] and M[j] < len(%s))" % b,
                 "forall(0, _it0, lambda j: forall(0, len(%s), lambda q: %s <= %s))" % (b, _D("(%s)[j]" % a, "(%s)[M[j]]" % b), _D("(%s)[j]" % a, "(%s)[q]" % b)),
                 "error == Sum(0, _it0, lambda j: %s)" % tj, "error >= 0"],
            ghost_end=["M = store(M, _it0 - 1, idx)"],      # the counter is already advanced when ghost_end runs
            hints=["forall(0, _it0 - 1, lambda j: M[j] == _h_M[j])",
                   "Sum(0, _it0 - 1, lambda j: %s) == Sum(0, _it0 - 1, lambda j: %s)" % (tj, tj.replace("M[j]", "_h_M[j]")),
                   "M[_it0 - 1] == idx",
                   "Sum(0, _it0, lambda j: %s) == Sum(0, _it0 - 1, lambda j: %s) + %s" % (tj, tj, tj.replace("[j]", "[_it0 - 1]"))],
        )},
    )


for _f in ("mae", "mse"):
    # base contract (every strategy): defined, non-negative; the value is named so that rmse can refer to it
    C["kneeliverse.evaluation.%s" % _f] = dict(
        mode="R", owner="C19", params=_MATCH_PARAMS, returns="Real", requires=_MATCH_REQ,
        ensures=["result >= 0"], loops={0: dict(inv=["error >= 0"])})
    C["kneeliverse.evaluation.%s#knees" % _f] = _matching(_f, "knees", _KP, "expected")
    C["kneeliverse.evaluation.%s#expected" % _f] = _matching(_f, "expected", "expected", _KP)
    # perfect detection: the expected points are exactly the knee points -> 0 (any strategy)
    C["kneeliverse.evaluation.%s#perfect" % _f] = dict(
        function="kneeliverse.evaluation.%s" % _f, mode="R", owner="C19", params=_MATCH_PARAMS, returns="Real",
        requires=_MATCH_REQ + ["len(expected) == len(knees)",
                               "forall(0, len(knees), lambda k: expected[k][0] == points[knees[k]][0] and expected[k][1] == points[knees[k]][1])"],
        ensures=["result == 0"],
        loops={0: dict(inv=["error == 0", "len(a) == len(b)", "forall(0, len(a), lambda k: a[k][0] == b[k][0] and a[k][1] == b[k][1])"],
                       hints=["p[0] == a[_it0 - 1][0] and p[1] == a[_it0 - 1][1]",
                              "sq(b[_it0 - 1][0] - p[0]) + sq(b[_it0 - 1][1] - p[1]) == 0",
                              "distances[_it0 - 1] == sqrt(sq(b[_it0 - 1][0] - p[0]) + sq(b[_it0 - 1][1] - p[1]))",
                              "distances[_it0 - 1] == 0", "distances[idx] <= distances[_it0 - 1]",
                              "distances[idx] == sqrt(sq(b[idx][0] - p[0]) + sq(b[idx][1] - p[1]))",
                              "distances[idx] >= 0", "distances[idx] == 0",
                              "sq(b[idx][0] - p[0]) + sq(b[idx][1] - p[1]) == 0",
                              "b[idx][0] == p[0] and b[idx][1] == p[1]"])})


# rmse = sqrt(mse): the callee's value is named by an uninterpreted term so that the identity can be stated
C["kneeliverse.evaluation.rmse"] = dict(
    mode="R", owner="C19", params=_MATCH_PARAMS, returns="Real", requires=_MATCH_REQ,
    use={"kneeliverse.evaluation.mse": "kneeliverse.evaluation.rmse#callee"},
    ensures=["result >= 0", "result == sqrt(uf('MSE', 'Real', points, knees, expected, s))", "uf('MSE', 'Real', points, knees, expected, s) >= 0"])
C["kneeliverse.evaluation.rmse#callee"] = dict(
    function="kneeliverse.evaluation.mse", mode="R", summary=True, params=_MATCH_PARAMS, returns="Real", requires=_MATCH_REQ,
    returns_expr="uf('MSE', 'Real', points, knees, expected, s)", ensures=["result >= 0"])

# rmspe: defined and non-negative for curves with non-negative coordinates (p + eps != 0), zero on perfect detection
_NONNEG = ["eps > 0", "forall(0, len(points), lambda k: points[k][0] >= 0 and points[k][1] >= 0)",
           "forall(0, len(expected), lambda k: expected[k][0] >= 0 and expected[k][1] >= 0)"]
C["kneeliverse.evaluation.rmspe"] = dict(
    mode="R", owner="C19", params=dict(_MATCH_PARAMS, eps="Real"), returns="Real", locals={"errors": "Seq[Real]"},
    requires=_MATCH_REQ + _NONNEG, ensures=["result >= 0"],
    loops={0: dict(inv=["len(errors) == 2 * _it0"])})
C["kneeliverse.evaluation.rmspe#perfect"] = dict(
    function="kneeliverse.evaluation.rmspe", mode="R", owner="C19", params=dict(_MATCH_PARAMS, eps="Real"), returns="Real", locals={"errors": "Seq[Real]"},
    requires=_MATCH_REQ + _NONNEG + ["len(expected) == len(knees)",
                                     "forall(0, len(knees), lambda k: expected[k][0] == points[knees[k]][0] and expected[k][1] == points[knees[k]][1])"],
    ensures=["result == 0"],
    post_hints=["forall(0, len(errors), lambda k: sq(errors[k]) == 0)", "Sum(0, len(errors), lambda k: sq(errors[k])) == 0"],
    loops={0: dict(inv=["len(errors) == 2 * _it0", "forall(0, len(errors), lambda k: errors[k] == 0)",
                        "len(a) == len(b)", "forall(0, len(a), lambda k: a[k][0] == b[k][0] and a[k][1] == b[k][1])"],
                   hints=["p[0] == a[_it0 - 1][0] and p[1] == a[_it0 - 1][1]",
                          "sq(b[_it0 - 1][0] - p[0]) + sq(b[_it0 - 1][1] - p[1]) == 0",
                          "distances[_it0 - 1] == sqrt(sq(b[_it0 - 1][0] - p[0]) + sq(b[_it0 - 1][1] - p[1]))",
                          "distances[_it0 - 1] == 0", "distances[idx] <= distances[_it0 - 1]",
                          "distances[idx] == sqrt(sq(b[idx][0] - p[0]) + sq(b[idx][1] - p[1]))",
                          "distances[idx] >= 0", "distances[idx] == 0",
                          "sq(b[idx][0] - p[0]) + sq(b[idx][1] - p[1]) == 0",
                          "b[idx][0] == p[0] and b[idx][1] == p[1]",
                          "e[0] == 0 and e[1] == 0"])})


# ------------------------------------------------------------------ C15: the per-segment error itself (definitional contract; the summary
# above - deterministic and >= 0 - is what the global-cost proofs use at call sites, this one verifies both facts and the formulas)
_S = lambda body: "Sum(0, len(y), lambda k: %s)" % body
_PC = {"r2": _S("sq(y[k] - y_hat[k])"), "rmsle": _S("sq(log(y[k] + 1) - log(y_hat[k] + 1))"),
       "rmspe": _S("sq((y[k] - y_hat[k]) / (y[k] + eps))"), "rpd": _S("absr((y[k] - y_hat[k]) / (max2(y[k], y_hat[k]) + eps))"),
       "smape": _S("2.0 * absr(y_hat[k] - y[k]) / (absr(y[k]) + absr(y_hat[k]) + eps)")}
C["kneeliverse.evaluation.compute_partial_cost#def"] = dict(
    function="kneeliverse.evaluation.compute_partial_cost", mode="R", owner="C15",
    params={"y": V, "y_hat": V, "cost": METRIC, "eps": "Real"}, returns="Real",
    requires=["len(y) == len(y_hat)", "eps > 0", "forall(0, len(y), lambda k: y[k] >= 0 and y_hat[k] >= 0)"],
    ensures=["implies(cost is metrics.Metrics.%s, result == %s)" % (m, f) for m, f in _PC.items() if m != "smape"]
            + ["implies(not (cost is metrics.Metrics.r2 or cost is metrics.Metrics.rmsle or cost is metrics.Metrics.rmspe or cost is metrics.Metrics.rpd), result == %s)" % _PC["smape"],
               "result >= 0"],
    post_hints=["forall(0, len(y), lambda k: absr(y[k]) + absr(y_hat[k]) + eps > 0)",
                "forall(0, len(y), lambda k: 2.0 * absr(y_hat[k] - y[k]) / (absr(y[k]) + absr(y_hat[k]) + eps) >= 0)"],
)
