"""Sidecar contracts for kneeliverse.linear_fit.

Two kinds of entries:
 * mode-U *summaries* (suffix-free keys used at call sites by the structural proofs of rdp / multi_knee / ...):
   the result is an uninterpreted function of the argument *contents* (determinism) plus the few facts that
   hold for IEEE doubles (lengths, non-negativity).  They carry no floating-point assumption.
 * mode-R definitional contracts (keys with '#def'), verified against the bodies for C16/C17.
"""
C = {}
PTS = "Seq[Tup[Real,Real]]"
COEF = "Tup[Real,Real]"

C["kneeliverse.linear_fit.linear_fit_points"] = dict(
    mode="U", summary=True,
    params={"points": PTS}, returns=COEF,
    requires=["len(points) >= 1"],
    ensures=["result[0] == uf('LFb', 'Real', points)", "result[1] == uf('LFm', 'Real', points)"],
)

for _name in ("shortest_distance_points", "perpendicular_distance_points"):
    C["kneeliverse.linear_fit." + _name] = dict(
        mode="U", summary=True,
        params={"p" if _name[0] == "s" else "pt": PTS, "a" if _name[0] == "s" else "start": COEF,
                "b" if _name[0] == "s" else "end": COEF},
        returns="Seq[Real]",
        requires=[],
        ensures=[
            "len(result) == len(%s)" % ("p" if _name[0] == "s" else "pt"),
            "forall(0, len(result), lambda i: result[i] >= 0)",
            "seq_eq(result, ufa('Dist_%s', 'Real', len(%s), %s))" % (_name, "p" if _name[0] == "s" else "pt",
                                                                   "p, a, b" if _name[0] == "s" else "pt, start, end"),
        ],
    )

C["kneeliverse.linear_fit.linear_fit_residuals_points"] = dict(
    mode="U", summary=True, params={"points": PTS}, returns="Real",
    requires=["len(points) >= 1"],
    ensures=["result == uf('FitResiduals', 'Real', points)"],
)


# ================================================================== C17: geometric primitives, mode R (definitional contracts)
def crossp(a, b, p):
    """cross product (b-a) x (p-a)"""
    return "((%s[0]-%s[0])*(%s[1]-%s[1]) - (%s[1]-%s[1])*(%s[0]-%s[0]))" % (b, a, p, a, b, a, p, a)


def d2(p, q):
    return "(sq(%s[0]-%s[0]) + sq(%s[1]-%s[1]))" % (p, q, p, q)


# distance of pt[i] to the infinite line through start,end:  r >= 0 and r^2 * |end-start|^2 == cross^2  (division/root free)
# L2 and Cr name the squared chord length and the cross product (definitional axioms), which keeps the nonlinear steps small.
C["kneeliverse.linear_fit.perpendicular_distance_points#def"] = dict(
    function="kneeliverse.linear_fit.perpendicular_distance_points", mode="R", owner="C17",
    params={"pt": PTS, "start": COEF, "end": COEF}, returns="Seq[Real]",
    spec_funs={"L2": ([], "Real", d2("end", "start")), "Cr": (["i"], "Real", crossp("start", "end", "pt[i]"))},
    requires=["%s > 0" % d2("end", "start")],
    post_hints=[
        "L2() > 0 and sqrt(L2()) > 0 and sq(sqrt(L2())) == L2()",
        "len(result) == len(pt)",
        "forall(0, len(pt), lambda i: result[i] == absr(Cr(i) / sqrt(L2())))",
        "forall(0, len(pt), lambda i: sq(result[i]) == sq(Cr(i) / sqrt(L2())))",
        "forall(0, len(pt), lambda i: (Cr(i) / sqrt(L2())) * sqrt(L2()) == Cr(i))",
        "forall(0, len(pt), lambda i: sq(result[i]) * L2() == sq(Cr(i)))",
    ],
    ensures=[
        "len(result) == len(pt)",
        "forall(0, len(pt), lambda i: result[i] >= 0)",
        "forall(0, len(pt), lambda i: sq(result[i]) * %s == sq(%s))" % (d2("end", "start"), crossp("start", "end", "pt[i]")),
    ],
)

# the sub-range variant returns the distances of exactly points[left..right] to the line through points[left], points[right]
C["kneeliverse.linear_fit.perpendicular_distance_index#def"] = dict(
    function="kneeliverse.linear_fit.perpendicular_distance_index", mode="R", owner="C17",
    use={"kneeliverse.linear_fit.perpendicular_distance_points": "kneeliverse.linear_fit.perpendicular_distance_points#def"},
    params={"points": PTS, "left": "Int", "right": "Int"}, returns="Seq[Real]",
    requires=["0 <= left and left < right and right < len(points)", "%s > 0" % d2("points[right]", "points[left]")],
    ensures=[
        "len(result) == right - left + 1",
        "forall(0, right - left + 1, lambda i: result[i] >= 0)",
        "forall(0, right - left + 1, lambda i: sq(result[i]) * %s == sq(%s))" % (
            d2("points[right]", "points[left]"), crossp("points[left]", "points[right]", "points[left + i]")),
    ],
)


# ------------------------------------------------------------------ shortest distance = distance to the closed segment a-b
# W(i) = (p_i-a).(b-a), Cr(i) = (p_i-a) x (b-a), L2 = |b-a|^2.  Closest point of the segment: a if W <= 0, b if W >= L2, else the
# foot of the perpendicular; hence (division- and root-free)  r >= 0 and
#   r^2 * L2 == |p_i-a|^2 * L2   (W <= 0),   |p_i-b|^2 * L2   (W >= L2),   Cr^2   (otherwise);   a == b:  r^2 == |p_i-a|^2.
_W = "((p[i][0]-a[0])*(b[0]-a[0]) + (p[i][1]-a[1])*(b[1]-a[1]))"
_CR = "((p[i][0]-a[0])*(b[1]-a[1]) - (p[i][1]-a[1])*(b[0]-a[0]))"
_PA2 = "(sq(p[i][0]-a[0]) + sq(p[i][1]-a[1]))"
_PB2 = "(sq(p[i][0]-b[0]) + sq(p[i][1]-b[1]))"
C["kneeliverse.linear_fit.shortest_distance_points#def"] = dict(
    function="kneeliverse.linear_fit.shortest_distance_points", mode="R", owner="C17",
    params={"p": PTS, "a": COEF, "b": COEF}, returns="Seq[Real]",
    spec_funs={"L2": ([], "Real", d2("b", "a")), "W": (["i"], "Real", _W), "Cr": (["i"], "Real", _CR),
               "PA2": (["i"], "Real", _PA2), "PB2": (["i"], "Real", _PB2)},
    requires=[],
    post_hints={1: [
        "L2() > 0 and sqrt(L2()) > 0 and sq(sqrt(L2())) == L2()",
        "d[0] * sqrt(L2()) == b[0] - a[0] and d[1] * sqrt(L2()) == b[1] - a[1]",
        "forall(0, len(p), lambda i: s[i] == (a[0]-p[i][0])*d[0] + (a[1]-p[i][1])*d[1])",
        "forall(0, len(p), lambda i: t[i] == (p[i][0]-b[0])*d[0] + (p[i][1]-b[1])*d[1])",
        "forall(0, len(p), lambda i: c[i] == (p[i][0]-a[0])*d[1] - (p[i][1]-a[1])*d[0])",
        "forall(0, len(p), lambda i: s[i] * sqrt(L2()) == -W(i))",
        "forall(0, len(p), lambda i: t[i] * sqrt(L2()) == (p[i][0]-b[0])*(d[0]*sqrt(L2())) + (p[i][1]-b[1])*(d[1]*sqrt(L2())))",
        "forall(0, len(p), lambda i: t[i] * sqrt(L2()) == (p[i][0]-b[0])*(b[0]-a[0]) + (p[i][1]-b[1])*(b[1]-a[1]))",
        "forall(0, len(p), lambda i: t[i] * sqrt(L2()) == W(i) - L2())",
        "forall(0, len(p), lambda i: c[i] * sqrt(L2()) == Cr(i))",
        "forall(0, len(p), lambda i: implies(W(i) <= 0, s[i] >= 0 and t[i] < 0))",
        "forall(0, len(p), lambda i: implies(W(i) >= L2(), t[i] >= 0 and s[i] < 0))",
        "forall(0, len(p), lambda i: implies(W(i) > 0 and W(i) < L2(), t[i] < 0 and s[i] < 0))",
        "forall(0, len(p), lambda i: h[i] == ite(W(i) <= 0, s[i], ite(W(i) >= L2(), t[i], 0.0)))",
        "forall(0, len(p), lambda i: result[i] >= 0 and sq(result[i]) == sq(h[i]) + sq(c[i]))",
        "forall(0, len(p), lambda i: sq(result[i]) * sq(sqrt(L2())) == sq(h[i]) * sq(sqrt(L2())) + sq(c[i]) * sq(sqrt(L2())))",
        "forall(0, len(p), lambda i: sq(h[i] * sqrt(L2())) == sq(h[i]) * sq(sqrt(L2())) and sq(c[i] * sqrt(L2())) == sq(c[i]) * sq(sqrt(L2())))",
        "forall(0, len(p), lambda i: sq(result[i]) * sq(sqrt(L2())) == sq(h[i] * sqrt(L2())) + sq(c[i] * sqrt(L2())))",
        "forall(0, len(p), lambda i: sq(result[i]) * L2() == sq(result[i]) * sq(sqrt(L2())))",
        "forall(0, len(p), lambda i: sq(result[i]) * L2() == sq(h[i] * sqrt(L2())) + sq(c[i] * sqrt(L2())))",
        "forall(0, len(p), lambda i: implies(W(i) <= 0, h[i] * sqrt(L2()) == -W(i)))",
        "forall(0, len(p), lambda i: implies(W(i) >= L2(), h[i] * sqrt(L2()) == W(i) - L2()))",
        "forall(0, len(p), lambda i: implies(W(i) > 0 and W(i) < L2(), h[i] * sqrt(L2()) == 0))",
        "forall(0, len(p), lambda i: implies(W(i) <= 0, sq(result[i]) * L2() == sq(W(i)) + sq(Cr(i))))",
        "forall(0, len(p), lambda i: implies(W(i) >= L2(), sq(h[i] * sqrt(L2())) == sq(W(i) - L2()) and sq(c[i] * sqrt(L2())) == sq(Cr(i))))",
        "forall(0, len(p), lambda i: implies(W(i) >= L2(), sq(result[i]) * L2() == sq(W(i) - L2()) + sq(Cr(i))))",
        "forall(0, len(p), lambda i: implies(W(i) > 0 and W(i) < L2(), sq(result[i]) * L2() == sq(Cr(i))))",
        "forall(0, len(p), lambda i: sq(W(i)) + sq(Cr(i)) == PA2(i) * L2())",
        "forall(0, len(p), lambda i: sq(W(i) - L2()) + sq(Cr(i)) == PB2(i) * L2())",
        "forall(0, len(p), lambda i: sq(result[i]) * L2() == ite(W(i) <= 0, PA2(i) * L2(), ite(W(i) >= L2(), PB2(i) * L2(), sq(Cr(i)))))",
    ]},
    ensures=[
        "len(result) == len(p)",
        "forall(0, len(p), lambda i: result[i] >= 0)",
        "implies(a[0] == b[0] and a[1] == b[1], forall(0, len(p), lambda i: sq(result[i]) == %s))" % _PA2,
        "implies(not (a[0] == b[0] and a[1] == b[1]), forall(0, len(p), lambda i: sq(result[i]) * %s == "
        "ite(%s <= 0, %s * %s, ite(%s >= %s, %s * %s, sq(%s)))))" % (d2("b", "a"), _W, _PA2, d2("b", "a"), _W, d2("b", "a"), _PB2, d2("b", "a"), _CR),
    ],
)
