"""Sidecar contracts for kneeliverse.linear_fit.

Two kinds of entries:
 * mode-U *summaries* (suffix-free keys used at call sites by the structural proofs of rdp / multi_knee / ...):
   the result is an uninterpreted function of the argument *contents* (determinism) plus the few facts that
   hold for IEEE doubles (lengths, non-negativity).  They carry no floating-point assumption.
 * mode-R definitional contracts (keys with '#def'), verified against the bodies for C16/C17.
"""
C = {}
PTS = "Seq[Tup[Real,Real]]"
COEF = "Tup[Real,Real]"

C["kneeliverse.linear_fit.linear_fit_points"] = dict(
    mode="U", summary=True,
    params={"points": PTS}, returns=COEF,
    requires=["len(points) >= 1"],
    ensures=["result[0] == uf('LFb', 'Real', points)", "result[1] == uf('LFm', 'Real', points)"],
)

for _name in ("shortest_distance_points", "perpendicular_distance_points"):
    C["kneeliverse.linear_fit." + _name] = dict(
        mode="U", summary=True,
        params={"p" if _name[0] == "s" else "pt": PTS, "a" if _name[0] == "s" else "start": COEF,
                "b" if _name[0] == "s" else "end": COEF},
        returns="Seq[Real]",
        requires=[],
        ensures=[
            "len(result) == len(%s)" % ("p" if _name[0] == "s" else "pt"),
            "forall(0, len(result), lambda i: result[i] >= 0)",
            "seq_eq(result, ufa('Dist_%s', 'Real', len(%s), %s))" % (_name, "p" if _name[0] == "s" else "pt",
                                                                   "p, a, b" if _name[0] == "s" else "pt, start, end"),
        ],
    )

C["kneeliverse.linear_fit.linear_fit_residuals_points"] = dict(
    mode="U", summary=True, params={"points": PTS}, returns="Real",
    requires=["len(points) >= 1"],
    ensures=["result == uf('FitResiduals', 'Real', points)"],
)
