"""Sidecar contracts for kneeliverse.metrics and the linear-fit wrappers (C16), mode R.
Each postcondition is the textbook formula of the statement, written independently with the spec fold Sum."""
C = {}
V = "Seq[Real]"
N = "len(y)"
REQ = ["len(y) >= 1", "len(y_hat) == len(y)"]
MEAN = lambda body: "Sum(0, len(y), lambda k: %s) / len(y)" % body

FORMULA = {
    "rmse": "sqrt(%s)" % MEAN("sq(y[k] - y_hat[k])"),
    "rmsle": "sqrt(%s)" % MEAN("sq(log(y[k] + 1) - log(y_hat[k] + 1))"),
    "rmspe": "sqrt(%s)" % MEAN("sq((y[k] - y_hat[k]) / (y[k] + eps))"),
    "rpd": MEAN("absr((y[k] - y_hat[k]) / (max2(y[k], y_hat[k]) + eps))"),
    "smape": MEAN("2.0 * absr(y_hat[k] - y[k]) / (absr(y[k]) + absr(y_hat[k]) + eps)"),
    "residuals": "Sum(0, len(y), lambda k: sq(y[k] - y_hat[k]))",
}
for _n, _f in FORMULA.items():
    _params = {"y": V, "y_hat": V}
    if "eps" in _f:
        _params["eps"] = "Real"
    C["kneeliverse.metrics." + _n] = dict(
        mode="R", owner="C16", params=_params, returns="Real",
        requires=REQ + (["eps > 0", "forall(0, len(y), lambda k: y[k] >= 0 and y_hat[k] >= 0)"] if "eps" in _f else []),
        ensures=["result == %s" % _f],
    )

RSS = "Sum(0, len(y), lambda k: sq(y[k] - y_hat[k]))"
YM = "(Sum(y) / len(y))"
TSS = "Sum(0, len(y), lambda k: sq(y[k] - %s))" % YM
CLASSIC = "ite(%s == 0, 1.0 - %s, 1.0 - %s / %s)" % (TSS, RSS, RSS, TSS)
C["kneeliverse.metrics.r2"] = dict(
    mode="R", owner="C16",
    params={"y": V, "y_hat": V, "r2": "Enum[kneeliverse.metrics.R2]"}, returns="Real",
    requires=REQ + ["implies(r2 is R2.adjusted, len(y) >= 3)"],
    post_hints=["y_mean == %s" % YM, "rss == %s" % RSS, "tss == %s" % TSS],
    ensures=["result == ite(r2 is R2.adjusted, 1.0 - (1.0 - %s) * ((len(y) - 1) / (len(y) - 2)), %s)" % (CLASSIC, CLASSIC)],
)


# ------------------------------------------------------------------ linear-fit helpers
COEF = "Tup[Real,Real]"
LF = "kneeliverse.linear_fit."
XYC = {"x": V, "y": V, "coef": COEF}
YH = "(x[k] * coef[1] + coef[0])"          # m*x + b  (coef = (b, m))
WREQ = ["len(x) >= 1", "len(y) == len(x)"]
WRAP = {
    "rmse": ("rmse", "sqrt(Sum(0, len(y), lambda k: sq(y[k] - %s)) / len(y))" % YH, False),
    "rmsle": ("rmsle", "sqrt(Sum(0, len(y), lambda k: sq(log(y[k] + 1) - log(%s + 1))) / len(y))" % YH, False),
    "linear_residuals": ("residuals", "Sum(0, len(y), lambda k: sq(y[k] - %s))" % YH, False),
    "smape": ("smape", "Sum(0, len(y), lambda k: 2.0 * absr(%s - y[k]) / (absr(y[k]) + absr(%s) + eps)) / len(y)" % (YH, YH), True),
    "rpd": ("rpd", "Sum(0, len(y), lambda k: absr((y[k] - %s) / (max2(y[k], %s) + eps))) / len(y)" % (YH, YH), True),
}
for _w, (_m, _f, _eps) in WRAP.items():
    _p = dict(XYC)
    if _eps:
        _p["eps"] = "Real"
    C[LF + _w] = dict(
        mode="R", owner="C16", params=_p, returns="Real",
        requires=WREQ + (["eps > 0", "forall(0, len(y), lambda k: y[k] >= 0 and %s >= 0)" % YH] if _eps else []),
        ensures=["result == %s" % _f],
    )

# the end-point fit passes through the first and the last point
C[LF + "linear_fit"] = dict(
    mode="R", owner="C16", params={"x": V, "y": V}, returns=COEF,
    requires=["len(x) >= 1", "len(y) == len(x)"],
    ensures=["implies(x[0] != x[len(x)-1], result[1] * x[0] + result[0] == y[0] and result[1] * x[len(x)-1] + result[0] == y[len(x)-1])",
             "implies(x[0] == x[len(x)-1], result[0] == 0 and result[1] == 0)"],
)
C[LF + "linear_transform"] = dict(
    mode="R", owner="C16", params={"x": V, "coef": COEF}, returns=V,
    requires=[], ensures=["len(result) == len(x)", "forall(0, len(x), lambda k: result[k] == x[k] * coef[1] + coef[0])"],
)

C[LF + "rmspe"] = dict(
    mode="R", owner="C16", params=dict(XYC, eps="Real"), returns="Real",
    requires=WREQ + ["forall(0, len(y), lambda k: y[k] >= 0 and %s >= 0)" % YH],
    # (the wrapper does not forward its eps argument: the metric's default 1e-16 applies)
    ensures=["result == sqrt(Sum(0, len(y), lambda k: sq((y[k] - %s) / (y[k] + 1e-16))) / len(y))" % YH],
)
_RSS = "Sum(0, len(y), lambda k: sq(y[k] - %s))" % YH
_TSS = "Sum(0, len(y), lambda k: sq(y[k] - (Sum(y) / len(y))))"
_CL = "ite(%s == 0, 1.0 - %s, 1.0 - %s / %s)" % (_TSS, _RSS, _RSS, _TSS)
C[LF + "linear_r2"] = dict(
    mode="R", owner="C16", params=dict(XYC, r2="Enum[kneeliverse.metrics.R2]"), returns="Real",
    requires=WREQ + ["implies(r2 is metrics.R2.adjusted, len(x) >= 3)"],
    post_hints=["forall(0, len(y), lambda k: y_hat[k] == %s)" % YH, "y_mean == Sum(y) / len(y)", "rss == %s" % _RSS, "tss == %s" % _TSS],
    ensures=["result == ite(r2 is metrics.R2.adjusted, 1.0 - (1.0 - %s) * ((len(x) - 1) / (len(x) - 2)), %s)" % (_CL, _CL)],
)
# *_points variants: the same contract on the two columns
PTS = "Seq[Tup[Real,Real]]"
for _w in ("rmse", "rmsle", "linear_residuals", "smape", "rpd", "rmspe", "linear_r2"):
    _base = C[LF + _w]
    _sub = lambda t: t.replace("x[k]", "points[k][0]").replace("y[k]", "points[k][1]").replace("len(y)", "len(points)").replace("len(x)", "len(points)").replace("Sum(y)", "Sum(points[:, 1])")
    _p = {"points": PTS}
    _p.update({k: v for k, v in _base["params"].items() if k not in ("x", "y")})
    _name = {"linear_residuals": "linear_residuals_points", "linear_r2": "linear_r2_points"}.get(_w, _w + "_points")
    C[LF + _name] = dict(
        mode="R", owner="C16", params=_p, returns="Real",
        requires=["len(points) >= 1"] + [_sub(r) for r in _base["requires"] if "len(y) == len(x)" not in r and "len(x) >= 1" not in r],
        ensures=[_sub(e) for e in _base["ensures"]],
    )

# the two column-extracting wrappers themselves (definitional contracts; call sites elsewhere use the summaries of contracts/linear_fit.py)
C[LF + "linear_fit_points"] = dict(
    mode="R", owner="C16", params={"points": PTS}, returns=COEF,
    requires=["len(points) >= 1"],
    ensures=["implies(points[0][0] != points[len(points)-1][0], result[1] * points[0][0] + result[0] == points[0][1] "
             "and result[1] * points[len(points)-1][0] + result[0] == points[len(points)-1][1])",
             "implies(points[0][0] == points[len(points)-1][0], result[0] == 0 and result[1] == 0)"],
)
C[LF + "linear_transform_points"] = dict(
    mode="R", owner="C16", params={"points": PTS, "coef": COEF}, returns=V,
    requires=[], ensures=["len(result) == len(points)", "forall(0, len(points), lambda k: result[k] == points[k][0] * coef[1] + coef[0])"],
)

# end-point interpolation (what the global cost of C15 compares the curve with): for vertical=False the fitted values lie on the line
# through the first and the last point
_LINE = ("forall(0, len(x), lambda k: (result[k] - y[0]) * (x[len(x)-1] - x[0]) == (y[len(x)-1] - y[0]) * (x[k] - x[0]))")
C[LF + "linear_fit_transform#def"] = dict(
    function=LF + "linear_fit_transform", mode="R", owner="C16", params={"x": V, "y": V, "vertical": "Bool"}, returns=V,
    requires=["len(x) >= 1", "len(y) == len(x)", "vertical == False", "x[0] != x[len(x)-1]"],
    ensures=["len(result) == len(x)", "result[0] == y[0] and result[len(x)-1] == y[len(x)-1]", _LINE],
    post_hints=["coef1[1] * x[0] + coef1[0] == y[0] and coef1[1] * x[len(x)-1] + coef1[0] == y[len(x)-1]",
                "forall(0, len(x), lambda k: y_hat[k] == x[k] * coef1[1] + coef1[0])",
                "coef1[1] * (x[len(x)-1] - x[0]) == y[len(x)-1] - y[0]",
                "forall(0, len(x), lambda k: y_hat[k] - y[0] == coef1[1] * (x[k] - x[0]))"],
)
_LINEP = _LINE.replace("len(x)", "len(points)").replace("x[k]", "points[k][0]").replace("x[0]", "points[0][0]").replace("y[0]", "points[0][1]") \
    .replace("x[len(points)-1]", "points[len(points)-1][0]").replace("y[len(points)-1]", "points[len(points)-1][1]")
C[LF + "linear_fit_transform_points#def"] = dict(
    function=LF + "linear_fit_transform_points", mode="R", owner="C16", params={"points": PTS, "vertical": "Bool"}, returns=V,
    use={LF + "linear_fit_transform": LF + "linear_fit_transform#def"},
    requires=["len(points) >= 1", "vertical == False", "points[0][0] != points[len(points)-1][0]"],
    ensures=["len(result) == len(points)", "result[0] == points[0][1] and result[len(points)-1] == points[len(points)-1][1]", _LINEP],
)


# ------------------------------------------------------------------ consequences of the definitions ("hence ..." clause of the statement):
# lemmas over the postconditions of the metrics (the formulas above), for all vectors
LEMMAS = {}
_SW = lambda f: f.replace("y_hat", "Y_H").replace("y[", "y_hat[").replace("Y_H", "y")        # the formula with y and y_hat exchanged
_SUMOF = {"rmse": "Sum(0, len(y), lambda k: sq(y[k] - y_hat[k]))", "residuals": FORMULA["residuals"],
          "smape": "Sum(0, len(y), lambda k: 2.0 * absr(y_hat[k] - y[k]) / (absr(y[k]) + absr(y_hat[k]) + eps))"}
for _n in ("rmse", "residuals", "smape"):
    _v = {"y": V, "y_hat": V, "a": "Real", "b": "Real"}
    if "eps" in FORMULA[_n]:
        _v["eps"] = "Real"
    LEMMAS[_n + "_symmetric"] = dict(
        context="kneeliverse.metrics." + _n, owner="C16", mode="R", vars=_v,
        hyps=REQ + (["eps > 0"] if "eps" in FORMULA[_n] else []) + ["a == %s" % FORMULA[_n], "b == %s" % _SW(FORMULA[_n]).replace("len(y_hat)", "len(y)")],
        steps=["%s == %s" % (_SUMOF[_n], _SW(_SUMOF[_n]).replace("len(y_hat)", "len(y)"))],
        goal=["a == b"],
    )

# "every error metric is >= 0": the sum of squares is non-negative (induction on the upper limit), hence residuals and rmse are
LEMMAS["residuals_nonneg"] = dict(
    context="kneeliverse.metrics.residuals", owner="C16", mode="R", vars={"y": V, "y_hat": V, "a": "Real", "b": "Real"},
    hyps=REQ + ["a == %s" % FORMULA["residuals"], "b == %s" % FORMULA["rmse"]],
    steps=[{"induct": ("i", "0", "len(y) + 1", "Sum(0, @, lambda k: sq(y[k] - y_hat[k])) >= 0")}],
    goal=["a >= 0", "b >= 0"],
)
