"""Sidecar contracts for the single-knee detectors (C09 optimality, C02 Detector conformance)."""
C = {}
PTS = "Seq[Tup[Real,Real]]"
VALID = ["forall2(0, len(points), lambda a, b: points[a][0] < points[b][0])"]

# ---------------------------------------------------------------- curvature
G1 = "ufa('uts_cfd', 'Real', len(points), points[:, 0], points[:, 1])"
G2 = "ufa('uts_csd', 'Real', len(points), points[:, 0], points[:, 1])"
CRIT = lambda j: "(absr((%s)[%s]) / uf('pow', 'Real', 1.0 + sq((%s)[%s]), 1.5))" % (G2, j, G1, j)
C["kneeliverse.curvature.knee"] = dict(
    mode="U", owner="C09",
    params={"points": PTS}, returns="Int",
    requires=["len(points) >= 3"] + VALID,
    ensures=[
        "1 <= result and result <= len(points) - 2",                                                   # interior (Detector contract, C02)
        "forall(1, len(points) - 1, lambda j: %s <= %s)" % (CRIT("j"), CRIT("result")),              # maximises |f''|/(1+f'^2)^(3/2) over interior points
        "forall(1, result, lambda j: %s < %s)" % (CRIT("j"), CRIT("result")),                        # first maximum
    ],
)

# ---------------------------------------------------------------- menger
def cross(f, g, h):
    return "((%s[0]-%s[0])*(%s[1]-%s[1]) - (%s[1]-%s[1])*(%s[0]-%s[0]))" % (g, f, h, g, g, f, h, g)


def d2(p, q):
    return "(sq(%s[0]-%s[0]) + sq(%s[1]-%s[1]))" % (p, q, p, q)


_F, _G, _H = "points[j]", "points[j-1]", "points[j+1]"       # the library passes the triple as (mid, prev, next)
MSPEC = {"ABC": (["j"], "Real", "%s * %s * %s" % (d2(_G, _F), d2(_H, _G), d2(_F, _H))), "CRS": (["j"], "Real", cross(_F, _G, _H))}


def is_menger(v, i):
    """v is the Menger curvature (reciprocal circumradius) of the triple (i-1, i, i+1): v >= 0 and v^2 a^2 b^2 c^2 = 4 cross^2"""
    return "(%s >= 0 and sq(%s) * ABC(%s) == 4 * sq(CRS(%s)))" % (v, v, i, i)


C["kneeliverse.menger.knee"] = dict(
    mode="R", owner="C09",
    params={"points": PTS}, returns="Int",
    locals={"curvature": "Seq[Real]"},
    ghost_vars={"CV": "Seq[Real]"},
    spec_funs=MSPEC,
    requires=["len(points) >= 3"] + VALID,
    ensures=[
        "0 <= result and result <= len(points) - 2",                      # never the last index (Detector contract with lo = 0)
        "forall(1, len(points) - 1, lambda j: %s)" % is_menger("CV[j]", "j"),
        "forall(1, len(points) - 1, lambda j: CV[j] <= ite(result >= 1, CV[result], 0.0))",        # maximises the Menger curvature of consecutive triples
        "implies(result == 0, forall(1, len(points) - 1, lambda j: CV[j] == 0))",                # index 0 only when every triple is collinear
    ],
    loops={0: dict(
        inv=[
            "len(curvature) == _it0 + 1",
            "curvature[0] == 0",
            "forall(1, _it0 + 1, lambda j: curvature[j] == CV[j] and %s)" % is_menger("CV[j]", "j"),
        ],
        ghost_end=["CV = store(CV, i, curvature[len(curvature) - 1])"],
        hints=["i == _it0 and len(curvature) == i + 1", "curvature[i] == CV[i]", is_menger("curvature[i]", "i"), is_menger("CV[i]", "i")],
    )},
)

# ---------------------------------------------------------------- L-method: single pass
FIT = "Enum[kneeliverse.lmethod.Fit]"
COST = "Enum[kneeliverse.lmethod.Cost]"
V = "Seq[Real]"
C["kneeliverse.lmethod.compute_error"] = dict(
    mode="U", summary=True,
    params={"x": V, "y": V, "index": "Int", "length": "Real", "fit": FIT, "cost": COST},
    returns="Tup[Real,Tup[Real,Real],Tup[Real,Real]]",
    requires=["len(x) == len(y)", "0 <= index and index < len(x)"],
    ensures=["result[0] == uf('LErr', 'Real', x, y, index, length, fit, cost)"],
)
E = lambda j: "uf('LErr', 'Real', x, y, %s, x[len(x)-1] - x[0], fit, cost)" % j
C["kneeliverse.lmethod.get_knee"] = dict(
    mode="U", owner="C09",
    params={"x": V, "y": V, "fit": FIT, "cost": COST}, returns="Tup[Int,Tup[Real,Real],Tup[Real,Real]]",
    requires=["len(x) >= 5", "len(y) == len(x)"],
    ensures=[
        "2 <= result[0] and result[0] <= len(x) - 3",
        "forall(2, len(x) - 2, lambda j: %s <= %s)" % (E("result[0]"), E("j")),          # minimises the two-line error over split points 2..n-3
        "forall(2, result[0], lambda j: %s < %s)" % (E("result[0]"), E("j")),            # first strict minimum
    ],
    loops={0: dict(inv=[
        "2 <= index and index <= 2 + _it0",
        "error == %s" % E("index"),
        "forall(2, 3 + _it0, lambda j: error <= %s)" % E("j"),
        "forall(2, index, lambda j: error < %s)" % E("j"),
    ])},
)

# ---------------------------------------------------------------- DFDT
DEV = lambda j: "absr(gradient[%s] - uf('uts_isodata', 'Real', gradient))" % j
C["kneeliverse.dfdt.get_knee_gradient"] = dict(
    mode="U", owner="C09",
    params={"gradient": V}, returns="Int",
    requires=["len(gradient) >= 3"],
    ensures=[
        "1 <= result and result <= len(gradient) - 2",
        "forall(1, len(gradient) - 1, lambda j: %s <= %s)" % (DEV("result"), DEV("j")),      # interior point whose gradient is closest to the ISODATA threshold
        "forall(1, result, lambda j: %s < %s)" % (DEV("result"), DEV("j")),
    ],
)
C["kneeliverse.dfdt.knee"] = dict(
    mode="U", owner="C09",
    params={"points": PTS}, returns="Int",
    requires=["len(points) >= 3"] + VALID,
    ensures=["1 <= result and result <= len(points) - 2"],
    loops={0: dict(
        inv=[
            "-1 <= last_knee and last_knee <= len(points) - 2",
            "0 <= knee and knee <= len(points) - 2",
            "0 <= cutoff and cutoff <= knee",
            "implies(last_knee == -1, knee == 0 and cutoff == 0)",
            "implies(last_knee >= 0, knee >= 1)",
            "len(x) == len(points) and len(gradient) == len(points)",
        ],
        var="len(points) - 2 - last_knee",       # the previous knee strictly increases: at most n-1 refinement steps
    )},
)

# ---------------------------------------------------------------- L-method: iterative refinement terminates (one specification per option)
REF = "Enum[kneeliverse.lmethod.Refinement]"
_LK = dict(
    function="kneeliverse.lmethod.knee", mode="U", owner="C09",
    params={"points": PTS, "fit": FIT, "it": REF, "limit": "Int"}, returns="Int",
    ensures=["2 <= result and result <= len(points) - 3"],
)
_INV = ["len(x) == len(points) and len(y) == len(points)", "cutoff >= 4",
        "2 <= current_knee and current_knee <= len(points)", "implies(last_knee != -1, current_knee <= len(points) - 3)",
        "implies(last_knee == -1, current_knee == len(points) and not done)", "last_knee >= -1"]
C["kneeliverse.lmethod.knee#none"] = dict(_LK, requires=["len(points) >= 5", "limit >= 4", "it is Refinement.none"],
    loops={0: dict(inv=_INV, var="ite(done, 0, 1)")})
C["kneeliverse.lmethod.knee#original"] = dict(_LK, requires=["len(points) >= 5", "limit >= 4", "it is Refinement.original"],
    # refine only while the knee moves left: the knee is a strictly decreasing integer >= 2 until the loop is told to stop
    loops={0: dict(inv=_INV, var="ite(done, 0, current_knee + 1)")})


# ---------------------------------------------------------------- C03: the Menger detector on an exact two-slope elbow
# lemma over menger.knee's contract (C09): on a curve made of two straight arms with distinct slopes meeting at an interior corner c
# (any real slopes, any increasing spacing - the statement's dyadic family is the part of it on which floating point is exact),
# every other interior triple is collinear (curvature 0) and the corner triple is not (curvature > 0): the detector returns c
LEMMAS = globals().get("LEMMAS", {})
_MK = C["kneeliverse.menger.knee"]
_ELBOW = ["len(points) >= 3", "forall2(0, len(points), lambda a, b: points[a][0] < points[b][0])",
          "1 <= c and c <= len(points) - 2", "s1 != s2",
          # two straight arms: every segment up to the corner has slope s1, every segment after it slope s2
          "forall(1, c + 1, lambda i: points[i][1] - points[(i)-1][1] == s1 * (points[i][0] - points[(i)-1][0]))",
          "forall(c + 1, len(points), lambda i: points[i][1] - points[(i)-1][1] == s2 * (points[i][0] - points[(i)-1][0]))"]
_GEOM = ["forall(1, c, lambda j: CRS(j) == 0)",
         "forall(c + 1, len(points) - 1, lambda r: CRS(r) == 0)",
         "CRS(c) != 0",
         "forall(1, len(points) - 1, lambda j: ABC(j) > 0)"]
# part 1 (geometry only): away from the corner consecutive triples are collinear, at the corner they are not; squared side lengths are positive
LEMMAS["menger_elbow_geometry"] = dict(
    context="kneeliverse.menger.knee", owner="C03", mode="R", spec_funs=MSPEC,
    vars={"points": PTS, "c": "Int", "s1": "Real", "s2": "Real"},
    hyps=_ELBOW,
    steps=[
        "forall(1, c, lambda j: points[j][1] - points[(j)-1][1] == s1 * (points[j][0] - points[(j)-1][0]) and points[j+1][1] - points[(j+1)-1][1] == s1 * (points[j+1][0] - points[(j+1)-1][0]))",
        "forall(c + 1, len(points) - 1, lambda r: points[r][1] - points[(r)-1][1] == s2 * (points[r][0] - points[(r)-1][0]) and points[r+1][1] - points[(r+1)-1][1] == s2 * (points[r+1][0] - points[(r+1)-1][0]))",
        "points[c][1] - points[(c)-1][1] == s1 * (points[c][0] - points[(c)-1][0]) and points[c+1][1] - points[(c+1)-1][1] == s2 * (points[c+1][0] - points[(c+1)-1][0])",
        "forall(1, len(points) - 1, lambda j: points[j-1][0] < points[j][0] and points[j][0] < points[j+1][0])",
        "CRS(c) == (points[c][0] - points[c-1][0]) * (points[c+1][0] - points[c][0]) * (s1 - s2)",
    ],
    goal=_GEOM,
)
# part 2: from menger.knee's postcondition (C09) and the conclusions of part 1 (verbatim, as hypotheses) the detector returns the corner
LEMMAS["menger_elbow_corner"] = dict(
    context="kneeliverse.menger.knee", owner="C03", mode="R", spec_funs=MSPEC,
    vars={"points": PTS, "result": "Int", "CV": "Seq[Real]", "c": "Int", "s1": "Real", "s2": "Real"},
    hyps=["len(points) >= 3", "1 <= c and c <= len(points) - 2"] + _GEOM + list(_MK["ensures"]),
    steps=[
        "forall(1, len(points) - 1, lambda j: implies(j != c, sq(CV[j]) * ABC(j) == 0))",
        "forall(1, len(points) - 1, lambda j: implies(j != c, CV[j] == 0))",
        "sq(CV[c]) * ABC(c) > 0",
        "CV[c] > 0",
    ],
    goal=["result == c"],
)
