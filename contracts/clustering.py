"""Sidecar contracts for kneeliverse.clustering (C11).  Numeric mode R: x and t are reals."""
C = {}
LEMMAS = {}

PTS = {"points": "Seq[Tup[Real,Real]]", "t": "Real"}
REQ = [
    "len(points) >= 2",
    "forall2(0, len(points), lambda a, b: points[a][0] < points[b][0])",
    "t > 0",
]
SHAPE_POST = [
    "len(result) == len(points)",
    "result[0] == 0",
    "forall(1, len(result), lambda i: result[i] - result[i-1] == 0 or result[i] - result[i-1] == 1)",
    "forall2(0, len(result), lambda p, q: result[p] <= result[q])",
]
RANGE = "(points[len(points)-1][0] - points[0][0])"

# first index of the run that contains position j, expressed through the labels only
def first_of(lab, j, a):
    return "0 <= %(a)s and %(a)s <= %(j)s and %(l)s[%(a)s] == %(l)s[%(j)s] and (%(a)s == 0 or %(l)s[%(a)s - 1] < %(l)s[%(a)s])" % dict(l=lab, j=j, a=a)

# ---------------------------------------------------------------- single
C["kneeliverse.clustering.single_linkage"] = dict(
    mode="R", params=PTS, returns="Seq[Int]", locals={"clusters": "Seq[Int]"},
    requires=REQ,
    ensures=SHAPE_POST + [
        "forall(1, len(result), lambda i: iff(result[i] == result[i-1] + 1, absr(points[i][0] - points[i-1][0]) / %s >= t))" % RANGE,
    ],
    loops={0: dict(inv=[
        "len(clusters) == _it0 + 1",
        "clusters[0] == 0",
        "cluster_index == clusters[_it0]",
        "forall(1, _it0 + 1, lambda i: clusters[i] - clusters[i-1] == 0 or clusters[i] - clusters[i-1] == 1)",
        "forall2(0, _it0 + 1, lambda p, q: clusters[p] <= clusters[q])",
        "forall(1, _it0 + 1, lambda i: iff(clusters[i] == clusters[i-1] + 1, absr(points[i][0] - points[i-1][0]) / %s >= t))" % RANGE,
    ])},
)

# ---------------------------------------------------------------- complete
C["kneeliverse.clustering.complete_linkage"] = dict(
    mode="R", params=PTS, returns="Seq[Int]", locals={"clusters": "Seq[Int]"},
    requires=REQ,
    ensures=SHAPE_POST + [
        "forall(1, len(result), lambda i: forall(0, i, lambda a: implies((%s), iff(result[i] == result[i-1] + 1, absr(points[i][0] - points[a][0]) / %s >= t))))" % (first_of("result", "i-1", "a"), RANGE),
    ],
    loops={0: dict(inv=[
        "len(clusters) == _it0 + 1",
        "clusters[0] == 0",
        "cluster_index == clusters[_it0]",
        first_of("clusters", "_it0", "cluster_point_idx"),
        "forall(1, _it0 + 1, lambda i: clusters[i] - clusters[i-1] == 0 or clusters[i] - clusters[i-1] == 1)",
        "forall2(0, _it0 + 1, lambda p, q: clusters[p] <= clusters[q])",
        "forall(1, _it0 + 1, lambda i: forall(0, i, lambda a: implies((%s), iff(clusters[i] == clusters[i-1] + 1, absr(points[i][0] - points[a][0]) / %s >= t))))" % (first_of("clusters", "i-1", "a"), RANGE),
    ])},
)

# ---------------------------------------------------------------- centroid
C["kneeliverse.clustering.centroid_linkage"] = dict(
    mode="R", params=PTS, returns="Seq[Int]", locals={"clusters": "Seq[Int]", "cluster_center": "Real"},
    requires=REQ,
    ensures=SHAPE_POST + [
        "forall(1, len(result), lambda i: forall(0, i, lambda a: implies((%s), iff(result[i] == result[i-1] + 1, "
        "absr(points[i][0] - SumRange(points[:, 0], a, i) / (i - a)) / %s >= t))))" % (first_of("result", "i-1", "a"), RANGE),
    ],
    loops={0: dict(inv=[
        "len(clusters) == _it0 + 1",
        "clusters[0] == 0",
        "cluster_index == clusters[_it0]",
        "cluster_size >= 1 and cluster_size <= _it0 + 1",
        first_of("clusters", "_it0", "(_it0 + 1 - cluster_size)"),
        "cluster_center * cluster_size == SumRange(points[:, 0], _it0 + 1 - cluster_size, _it0 + 1)",
        "forall(1, _it0 + 1, lambda i: clusters[i] - clusters[i-1] == 0 or clusters[i] - clusters[i-1] == 1)",
        "forall2(0, _it0 + 1, lambda p, q: clusters[p] <= clusters[q])",
        "forall(1, _it0 + 1, lambda i: forall(0, i, lambda a: implies((%s), iff(clusters[i] == clusters[i-1] + 1, "
        "absr(points[i][0] - SumRange(points[:, 0], a, i) / (i - a)) / %s >= t))))" % (first_of("clusters", "i-1", "a"), RANGE),
    ], hints=[
        "i == _it0 and 1 <= _h_cluster_size and _h_cluster_size <= i",
        "_h_cluster_center * _h_cluster_size == SumRange(points[:, 0], i - _h_cluster_size, i)",
        "_h_cluster_center == SumRange(points[:, 0], i - _h_cluster_size, i) / _h_cluster_size",
        "distance == absr(points[i][0] - SumRange(points[:, 0], i - _h_cluster_size, i) / (i - (i - _h_cluster_size))) / %s" % RANGE,
        "forall(0, i, lambda a: implies((%s), a == i - _h_cluster_size))" % first_of("clusters", "i-1", "a"),
        "iff(clusters[i] == clusters[i-1] + 1, distance >= t)",
        "implies(cluster_size == _h_cluster_size + 1, cluster_center * cluster_size == _h_cluster_center * _h_cluster_size + points[i][0])",
    ])},
)

# ---------------------------------------------------------------- average
C["kneeliverse.clustering.average_linkage"] = dict(
    mode="R", params=PTS, returns="Seq[Int]", locals={"clusters": "Seq[Int]"},
    requires=REQ,
    ensures=SHAPE_POST + [
        "forall(1, len(result), lambda i: forall(0, i, lambda a: implies((%s), iff(result[i] == result[i-1] + 1, "
        "(Sum(0, i - a, lambda k: absr(points[a + k][0] - points[i][0])) / (i - a)) / %s >= t))))" % (first_of("result", "i-1", "a"), RANGE),
    ],
    loops={0: dict(inv=[
        "len(clusters) == _it0 + 1",
        "clusters[0] == 0",
        "cluster_index == clusters[_it0]",
        first_of("clusters", "_it0", "idx"),
        "forall(1, _it0 + 1, lambda i: clusters[i] - clusters[i-1] == 0 or clusters[i] - clusters[i-1] == 1)",
        "forall2(0, _it0 + 1, lambda p, q: clusters[p] <= clusters[q])",
        "forall(1, _it0 + 1, lambda i: forall(0, i, lambda a: implies((%s), iff(clusters[i] == clusters[i-1] + 1, "
        "(Sum(0, i - a, lambda k: absr(points[a + k][0] - points[i][0])) / (i - a)) / %s >= t))))" % (first_of("clusters", "i-1", "a"), RANGE),
    ], hints=[
        "i == _it0 and 0 <= _h_idx and _h_idx < i",
        "distance == (Sum(0, i - _h_idx, lambda k: absr(points[_h_idx + k][0] - points[i][0])) / (i - _h_idx)) / %s" % RANGE,
        "forall(0, i, lambda a: implies((%s), a == _h_idx))" % first_of("clusters", "i-1", "a"),
    ])},
)
