"""Sidecar contracts for kneeliverse.clustering (C11).  Numeric mode R: x and t are reals."""
C = {}
LEMMAS = {}

PTS = {"points": "Seq[Tup[Real,Real]]", "t": "Real"}
REQ = [
    "len(points) >= 2",
    "forall2(0, len(points), lambda a, b: points[a][0] < points[b][0])",
    "t > 0",
]
SHAPE_POST = [
    "len(result) == len(points)",
    "result[0] == 0",
    "forall(1, len(result), lambda i: result[i] - result[i-1] == 0 or result[i] - result[i-1] == 1)",
    "forall2(0, len(result), lambda p, q: result[p] <= result[q])",
]
RANGE = "(points[len(points)-1][0] - points[0][0])"

# first index of the run that contains position j, expressed through the labels only
def first_of(lab, j, a):
    return "0 <= %(a)s and %(a)s <= %(j)s and %(l)s[%(a)s] == %(l)s[%(j)s] and (%(a)s == 0 or %(l)s[%(a)s - 1] < %(l)s[%(a)s])" % dict(l=lab, j=j, a=a)

# ---------------------------------------------------------------- single
C["kneeliverse.clustering.single_linkage"] = dict(
    mode="R", params=PTS, returns="Seq[Int]", locals={"clusters": "Seq[Int]"},
    requires=REQ,
    ensures=SHAPE_POST + [
        "forall(1, len(result), lambda i: iff(result[i] == result[i-1] + 1, absr(points[i][0] - points[i-1][0]) / %s >= t))" % RANGE,
    ],
    loops={0: dict(inv=[
        "len(clusters) == _it0 + 1",
        "clusters[0] == 0",
        "cluster_index == clusters[_it0]",
        "forall(1, _it0 + 1, lambda i: clusters[i] - clusters[i-1] == 0 or clusters[i] - clusters[i-1] == 1)",
        "forall2(0, _it0 + 1, lambda p, q: clusters[p] <= clusters[q])",
        "forall(1, _it0 + 1, lambda i: iff(clusters[i] == clusters[i-1] + 1, absr(points[i][0] - points[i-1][0]) / %s >= t))" % RANGE,
    ])},
)

# ---------------------------------------------------------------- complete
C["kneeliverse.clustering.complete_linkage"] = dict(
    mode="R", params=PTS, returns="Seq[Int]", locals={"clusters": "Seq[Int]"},
    requires=REQ,
    ensures=SHAPE_POST + [
        "forall(1, len(result), lambda i: forall(0, i, lambda a: implies((%s), iff(result[i] == result[i-1] + 1, absr(points[i][0] - points[a][0]) / %s >= t))))" % (first_of("result", "i-1", "a"), RANGE),
    ],
    loops={0: dict(inv=[
        "len(clusters) == _it0 + 1",
        "clusters[0] == 0",
        "cluster_index == clusters[_it0]",
        first_of("clusters", "_it0", "cluster_point_idx"),
        "forall(1, _it0 + 1, lambda i: clusters[i] - clusters[i-1] == 0 or clusters[i] - clusters[i-1] == 1)",
        "forall2(0, _it0 + 1, lambda p, q: clusters[p] <= clusters[q])",
        "forall(1, _it0 + 1, lambda i: forall(0, i, lambda a: implies((%s), iff(clusters[i] == clusters[i-1] + 1, absr(points[i][0] - points[a][0]) / %s >= t))))" % (first_of("clusters", "i-1", "a"), RANGE),
    ])},
)

# ---------------------------------------------------------------- centroid
C["kneeliverse.clustering.centroid_linkage"] = dict(
    mode="R", params=PTS, returns="Seq[Int]", locals={"clusters": "Seq[Int]", "cluster_center": "Real"},
    requires=REQ,
    ensures=SHAPE_POST + [
        "forall(1, len(result), lambda i: forall(0, i, lambda a: implies((%s), iff(result[i] == result[i-1] + 1, "
        "absr(points[i][0] - SumRange(points[:, 0], a, i) / (i - a)) / %s >= t))))" % (first_of("result", "i-1", "a"), RANGE),
    ],
    loops={0: dict(inv=[
        "len(clusters) == _it0 + 1",
        "clusters[0] == 0",
        "cluster_index == clusters[_it0]",
        "cluster_size >= 1 and cluster_size <= _it0 + 1",
        first_of("clusters", "_it0", "(_it0 + 1 - cluster_size)"),
        "cluster_center * cluster_size == SumRange(points[:, 0], _it0 + 1 - cluster_size, _it0 + 1)",
        "forall(1, _it0 + 1, lambda i: clusters[i] - clusters[i-1] == 0 or clusters[i] - clusters[i-1] == 1)",
        "forall2(0, _it0 + 1, lambda p, q: clusters[p] <= clusters[q])",
        "forall(1, _it0 + 1, lambda i: forall(0, i, lambda a: implies((%s), iff(clusters[i] == clusters[i-1] + 1, "
        "absr(points[i][0] - SumRange(points[:, 0], a, i) / (i - a)) / %s >= t))))" % (first_of("clusters", "i-1", "a"), RANGE),
    ], hints=[
        "i == _it0 and 1 <= _h_cluster_size and _h_cluster_size <= i",
        "_h_cluster_center * _h_cluster_size == SumRange(points[:, 0], i - _h_cluster_size, i)",
        "_h_cluster_center == SumRange(points[:, 0], i - _h_cluster_size, i) / _h_cluster_size",
        "distance == absr(points[i][0] - SumRange(points[:, 0], i - _h_cluster_size, i) / (i - (i - _h_cluster_size))) / %s" % RANGE,
        "forall(0, i, lambda a: implies((%s), a == i - _h_cluster_size))" % first_of("clusters", "i-1", "a"),
        "iff(clusters[i] == clusters[i-1] + 1, distance >= t)",
        "implies(cluster_size == _h_cluster_size + 1, cluster_center * cluster_size == _h_cluster_center * _h_cluster_size + points[i][0])",
    ])},
)

# ---------------------------------------------------------------- average
C["kneeliverse.clustering.average_linkage"] = dict(
    mode="R", params=PTS, returns="Seq[Int]", locals={"clusters": "Seq[Int]"},
    requires=REQ,
    ensures=SHAPE_POST + [
        "forall(1, len(result), lambda i: forall(0, i, lambda a: implies((%s), iff(result[i] == result[i-1] + 1, "
        "(Sum(0, i - a, lambda k: absr(points[a + k][0] - points[i][0])) / (i - a)) / %s >= t))))" % (first_of("result", "i-1", "a"), RANGE),
    ],
    loops={0: dict(inv=[
        "len(clusters) == _it0 + 1",
        "clusters[0] == 0",
        "cluster_index == clusters[_it0]",
        first_of("clusters", "_it0", "idx"),
        "forall(1, _it0 + 1, lambda i: clusters[i] - clusters[i-1] == 0 or clusters[i] - clusters[i-1] == 1)",
        "forall2(0, _it0 + 1, lambda p, q: clusters[p] <= clusters[q])",
        "forall(1, _it0 + 1, lambda i: forall(0, i, lambda a: implies((%s), iff(clusters[i] == clusters[i-1] + 1, "
        "(Sum(0, i - a, lambda k: absr(points[a + k][0] - points[i][0])) / (i - a)) / %s >= t))))" % (first_of("clusters", "i-1", "a"), RANGE),
    ], hints=[
        "i == _it0 and 0 <= _h_idx and _h_idx < i",
        "distance == (Sum(0, i - _h_idx, lambda k: absr(points[_h_idx + k][0] - points[i][0])) / (i - _h_idx)) / %s" % RANGE,
        "forall(0, i, lambda a: implies((%s), a == _h_idx))" % first_of("clusters", "i-1", "a"),
    ])},
)


# ---------------------------------------------------------------- lemmas over the contracts: the cluster count never increases with t
def _post(kind, lab, t):
    """the postcondition of the linkage (shape + rule) for labels `lab` and threshold `t`"""
    body = C["kneeliverse.clustering.%s_linkage" % kind]["ensures"]
    return [e.replace("result", lab).replace(">= t)", ">= %s)" % t) for e in body]


LEMMAS["single_linkage_monotone"] = dict(
    context="kneeliverse.clustering.single_linkage", owner="C11", mode="R",
    vars={"points": "Seq[Tup[Real,Real]]", "t1": "Real", "t2": "Real", "r1": "Seq[Int]", "r2": "Seq[Int]"},
    hyps=["len(points) >= 2", "forall2(0, len(points), lambda a, b: points[a][0] < points[b][0])", "0 < t1 and t1 <= t2"]
         + _post("single", "r1", "t1") + _post("single", "r2", "t2"),
    # induction on the position: the labels for the larger threshold never exceed those for the smaller one
    steps=[{"induct": ("i", "0", "len(points)", "r2[@] <= r1[@]")}],
    goal=["r2[len(points)-1] + 1 <= r1[len(points)-1] + 1"],      # number of clusters = last label + 1
)
# complete linkage: greedy stays ahead - either strictly fewer clusters so far, or the same number and a run that started no later
LEMMAS["complete_linkage_monotone"] = dict(
    context="kneeliverse.clustering.complete_linkage", owner="C11", mode="R",
    vars={"points": "Seq[Tup[Real,Real]]", "t1": "Real", "t2": "Real", "r1": "Seq[Int]", "r2": "Seq[Int]", "A1": "Seq[Int]", "A2": "Seq[Int]"},
    hyps=["len(points) >= 2", "forall2(0, len(points), lambda a, b: points[a][0] < points[b][0])", "0 < t1 and t1 <= t2"]
         + _post("complete", "r1", "t1") + _post("complete", "r2", "t2")
         # A1[i] / A2[i]: first index of the run containing i (exists and is unique for label sequences of this shape)
         + ["forall(0, len(points), lambda i: %s)" % first_of("r1", "i", "A1[i]"), "forall(0, len(points), lambda i: %s)" % first_of("r2", "i", "A2[i]")],
    steps=[
        "%s > 0" % RANGE,
        # the start of the run moves only when a new cluster starts
        "forall(0, len(points) - 1, lambda i: implies(r1[i+1] == r1[i], A1[i+1] == A1[i]))",
        "forall(0, len(points) - 1, lambda i: implies(r1[i+1] != r1[i], A1[i+1] == i + 1))",
        "forall(0, len(points) - 1, lambda i: implies(r2[i+1] == r2[i], A2[i+1] == A2[i]))",
        "forall(0, len(points) - 1, lambda i: implies(r2[i+1] != r2[i], A2[i+1] == i + 1))",
        # the rule, with the run start named
        "forall(0, len(points) - 1, lambda i: iff(r1[i+1] == r1[i] + 1, absr(points[i+1][0] - points[A1[i]][0]) / %s >= t1))" % RANGE,
        "forall(0, len(points) - 1, lambda i: iff(r2[i+1] == r2[i] + 1, absr(points[i+1][0] - points[A2[i]][0]) / %s >= t2))" % RANGE,
        "forall(0, len(points) - 1, lambda i: r1[i+1] == r1[i] or r1[i+1] == r1[i] + 1)",
        "forall(0, len(points) - 1, lambda i: r2[i+1] == r2[i] or r2[i+1] == r2[i] + 1)",
        # an earlier run start is farther away (x is increasing)
        "forall(0, len(points) - 1, lambda i: implies(A1[i] <= A2[i], absr(points[i+1][0] - points[A1[i]][0]) >= absr(points[i+1][0] - points[A2[i]][0])))",
        "forall(0, len(points) - 1, lambda i: implies(A1[i] <= A2[i], absr(points[i+1][0] - points[A1[i]][0]) / %s >= absr(points[i+1][0] - points[A2[i]][0]) / %s))" % (RANGE, RANGE),
        {"induct": ("i", "0", "len(points)", "r2[@] <= r1[@] and implies(r2[@] == r1[@], A1[@] <= A2[@])")}],
    goal=["r2[len(points)-1] + 1 <= r1[len(points)-1] + 1"],
)

# every label up to the last one occurs (discrete intermediate value): what filter_clusters needs from any linkage to index the first
# member of each cluster; shape facts only (labels start at 0 and grow by 0 or 1)
for _name in ("single", "complete", "centroid", "average"):
    LEMMAS["%s_linkage_labels_onto" % _name] = dict(
        context="kneeliverse.clustering.%s_linkage" % _name, owner="C11", mode="R",
        vars={"points": "Seq[Tup[Real,Real]]", "t1": "Real", "r1": "Seq[Int]"},
        hyps=["len(points) >= 2", "forall2(0, len(points), lambda a, b: points[a][0] < points[b][0])", "0 < t1"] + _post(_name, "r1", "t1"),
        steps=[{"induct": ("q", "0", "len(points)", "forall(0, r1[@] + 1, lambda v: exists(0, @ + 1, lambda p: r1[p] == v))"), "at": ["len(points)-1"]}],
        goal=["forall(0, r1[len(points)-1] + 1, lambda v: exists(0, len(points), lambda p: r1[p] == v))",
              "r1[0] == 0", "forall(1, len(points), lambda i: r1[i] - r1[i-1] == 0 or r1[i] - r1[i-1] == 1)",
              "forall2(0, len(points), lambda p, q: r1[p] <= r1[q])"],
    )
