"""Sidecar contracts for kneeliverse.postprocessing (C13, C14, C12)."""
C = {}
PTS = "Seq[Tup[Real,Real]]"

H = lambda e: "points[%s][1]" % e      # height of a knee index


def subsequence_post(res, src, n, m):
    """res is the order-preserving subsequence of src selected by the ghost flags KEPT (IDX / POS are the ghost index maps)"""
    return [
        "forall(0, %s, lambda j: 0 <= IDX[j] and IDX[j] < %s and %s[j] == %s[IDX[j]] and KEPT[IDX[j]])" % (m, n, res, src),
        "forall2(0, %s, lambda a, b: IDX[a] < IDX[b])" % m,
        "forall(0, %s, lambda i: implies(KEPT[i], 0 <= POS[i] and POS[i] < %s and IDX[POS[i]] == i))" % (n, m),
    ]


# ------------------------------------------------------------------ filter_worst_knees
RUNMIN = "forall(0, i, lambda j: %s <= %s)" % (H("knees[i]"), H("knees[j]"))
C["kneeliverse.postprocessing.filter_worst_knees"] = dict(
    mode="R", owner="C13",
    params={"points": PTS, "knees": "Seq[Int]"}, returns="Seq[Int]",
    locals={"filtered_knees": "Seq[Int]"},
    ghost_vars={"IDX": "Seq[Int]", "POS": "Seq[Int]", "KEPT": "Seq[Bool]"},
    ghost_init=["IDX = store(IDX, 0, 0)", "POS = store(POS, 0, 0)", "KEPT = store(KEPT, 0, True)"],
    requires=["forall(0, len(knees), lambda k: 0 <= knees[k] and knees[k] < len(points))"],
    ensures=subsequence_post("result", "knees", "len(knees)", "len(result)") + [
        # the selection rule of the statement: the first knee, then each knee whose height is <= every earlier height
        "forall(0, len(knees), lambda i: iff(KEPT[i], %s))" % RUNMIN,
        "forall2(0, len(result), lambda a, b: %s >= %s)" % (H("result[a]"), H("result[b]")),
        "len(result) <= len(knees)",
        "implies(len(knees) >= 1, len(result) >= 1 and result[0] == knees[0])",
    ],
    loops={0: dict(
        inv=subsequence_post("filtered_knees", "knees", "_it0 + 1", "len(filtered_knees)") + [
            "len(filtered_knees) >= 1 and len(filtered_knees) <= _it0 + 1 and filtered_knees[0] == knees[0]",
            "forall(0, _it0 + 1, lambda i: iff(KEPT[i], %s))" % RUNMIN,
            "forall(0, _it0 + 1, lambda j: h_min <= %s)" % H("knees[j]"),
            "h_min == %s" % H("filtered_knees[len(filtered_knees)-1]"),
            "forall2(0, len(filtered_knees), lambda a, b: %s >= %s)" % (H("filtered_knees[a]"), H("filtered_knees[b]")),
        ],
        ghost_end=[
            "KEPT = store(KEPT, i, len(filtered_knees) == len(_h_filtered_knees) + 1)",
            "IDX = ite(len(filtered_knees) == len(_h_filtered_knees) + 1, store(IDX, len(filtered_knees) - 1, i), IDX)",
            "POS = ite(len(filtered_knees) == len(_h_filtered_knees) + 1, store(POS, i, len(filtered_knees) - 1), POS)",
        ],
    )},
)

# idempotence as a second specification of the same body: on a list whose heights are already non-increasing nothing is dropped
C["kneeliverse.postprocessing.filter_worst_knees#idem"] = dict(
    function="kneeliverse.postprocessing.filter_worst_knees", mode="R", owner="C13",
    params={"points": PTS, "knees": "Seq[Int]"}, returns="Seq[Int]",
    locals={"filtered_knees": "Seq[Int]"},
    requires=["forall(0, len(knees), lambda k: 0 <= knees[k] and knees[k] < len(points))",
              "forall2(0, len(knees), lambda a, b: %s >= %s)" % (H("knees[a]"), H("knees[b]"))],
    ensures=["seq_eq(result, knees)"],
    loops={0: dict(inv=[
        "len(filtered_knees) == _it0 + 1",
        "forall(0, _it0 + 1, lambda j: filtered_knees[j] == knees[j])",
        "h_min == %s" % H("knees[_it0]"),
    ])},
)


# ------------------------------------------------------------------ corner filter / selector
def iou(k):
    """the statement's construction: corner rectangle spanned by (p0.x, p2.y) and p1 vs neighbour rectangle spanned by p0 and p2,
    p0/p1/p2 = points[k-1], points[k], points[k+1]; intersection over union, 0 when the overlap is empty"""
    x0, y0 = "points[(%s)-1][0]" % k, "points[(%s)-1][1]" % k
    x1, y1 = "points[%s][0]" % k, "points[%s][1]" % k
    x2, y2 = "points[(%s)+1][0]" % k, "points[(%s)+1][1]" % k
    aminx, amaxx = "min2(%s, %s)" % (x0, x1), "max2(%s, %s)" % (x0, x1)
    aminy, amaxy = "min2(%s, %s)" % (y2, y1), "max2(%s, %s)" % (y2, y1)
    bminx, bmaxx = "min2(%s, %s)" % (x0, x2), "max2(%s, %s)" % (x0, x2)
    bminy, bmaxy = "min2(%s, %s)" % (y0, y2), "max2(%s, %s)" % (y0, y2)
    dx = "max2(0.0, min2(%s, %s) - max2(%s, %s))" % (amaxx, bmaxx, aminx, bminx)
    dy = "max2(0.0, min2(%s, %s) - max2(%s, %s))" % (amaxy, bmaxy, aminy, bminy)
    inter = "(%s) * (%s)" % (dx, dy)
    area_a = "(%s - %s) * (%s - %s)" % (amaxx, aminx, amaxy, aminy)
    area_b = "(%s - %s) * (%s - %s)" % (bmaxx, bminx, bmaxy, bminy)
    return "ite(%s > 0.0, (%s) / (%s + %s - %s), 0.0)" % (inter, inter, area_a, area_b, inter)


HASBOTH = "(knees[i] - 1 >= 0 and knees[i] + 1 < len(points))"
for _fn, _rule in (("filter_corner_knees", "(not %s) or IoU(knees[i]) < t" % HASBOTH),
                   ("select_corner_knees", "%s and IoU(knees[i]) >= t" % HASBOTH)):
    C["kneeliverse.postprocessing." + _fn] = dict(
        mode="R", owner="C13",
        params={"points": PTS, "knees": "Seq[Int]", "t": "Real"}, returns="Seq[Int]",
        locals={"filtered_knees": "Seq[Int]"},
        ghost_vars={"IDX": "Seq[Int]", "POS": "Seq[Int]", "KEPT": "Seq[Bool]"},
        spec_funs={"IoU": (["k"], "Real", iou("k"))},
        requires=["forall(0, len(knees), lambda k: 0 <= knees[k] and knees[k] < len(points))"],
        # The selection rule  KEPT[i] <=> <_rule>  (IoU of the statement's rectangles against t).  kr.rect and kr.rect_overlap are
        # called by contract (contracts/knee_ranking.py, proved for C17); the hint p == IoU(idx) links the callee's
        # intersection-over-union to the statement's rectangle construction.
        ensures=subsequence_post("result", "knees", "len(knees)", "len(result)") + [
            "forall(0, len(knees), lambda i: iff(KEPT[i], %s))" % _rule,
        ],
        loops={0: dict(
            inv=subsequence_post("filtered_knees", "knees", "_it0", "len(filtered_knees)") + [
                "len(filtered_knees) <= _it0",
                "forall(0, _it0, lambda i: iff(KEPT[i], %s))" % _rule,
            ],
            hints=["idx == knees[i]", "p == IoU(idx)"],
            ghost_end=[
                "KEPT = store(KEPT, i, len(filtered_knees) == len(_h_filtered_knees) + 1)",
                "IDX = ite(len(filtered_knees) == len(_h_filtered_knees) + 1, store(IDX, len(filtered_knees) - 1, i), IDX)",
                "POS = ite(len(filtered_knees) == len(_h_filtered_knees) + 1, store(POS, i, len(filtered_knees) - 1), POS)",
            ],
        )},
    )


# ================================================================== C12: cluster filtering (left / linear / right ranking modes)
RANKING = "Enum[kneeliverse.knee_ranking.ClusterRanking]"
C["kneeliverse.knee_ranking.smooth_ranking"] = dict(
    mode="U", summary=True, params={"points": PTS, "knees": "Seq[Int]", "t": RANKING}, returns="Seq[Real]",
    requires=["len(knees) >= 1"], returns_expr="ufa('SmoothRank', 'Real', len(knees), points, knees, t)", ensures=[])
from contracts.knee_ranking import C as _KR
C["kneeliverse.knee_ranking.rank"] = _KR["kneeliverse.knee_ranking.rank"]

LAB = "ufa('Clust', 'Int', len(knees), clustering, points[knees], t)"
SMR = "ufa('SmoothRank', 'Real', len(current_cluster), points, current_cluster, method)"
WIT = "ufa('ClustPos', 'Int', len(knees), clustering, points[knees], t)"
# abstract contract of the clustering parameter = the C11 postcondition (labels start at 0, step 0/1, hence contiguous runs and every
# label up to the last one occurs - the last clause is the discrete intermediate-value consequence, proved as lemma labels_onto)
CLUSTERING = dict(
    params={"a0": PTS, "a1": "Real"}, returns="Seq[Int]",
    requires=["len(a0) >= 2", "forall2(0, len(a0), lambda a, b: a0[a][0] < a0[b][0])", "a1 > 0"],
    returns_expr="ufa('Clust', 'Int', len(a0), _self, a0, a1)",
    ensures=["result[0] == 0",
             "forall(1, len(result), lambda i: result[i] - result[i-1] == 0 or result[i] - result[i-1] == 1)",
             "forall2(0, len(result), lambda p, q: result[p] <= result[q])",
             # "every label up to the last occurs", in Skolem form (ClustPos[v] is a position carrying label v)
             "forall(0, result[len(result)-1] + 1, lambda v: 0 <= ufa('ClustPos', 'Int', len(a0), _self, a0, a1)[v] and ufa('ClustPos', 'Int', len(a0), _self, a0, a1)[v] < len(result) and result[ufa('ClustPos', 'Int', len(a0), _self, a0, a1)[v]] == v)"],
)
C["kneeliverse.postprocessing.filter_clusters#ranked"] = dict(
    function="kneeliverse.postprocessing.filter_clusters", mode="U", owner="C12",
    params={"points": PTS, "knees": "Seq[Int]", "clustering": "Fn", "t": "Real", "method": RANKING}, returns="Seq[Int]",
    locals={"filtered_knees": "Seq[Int]"},
    ghost_vars={"SEL": "Seq[Int]"},
    callables={"clustering": CLUSTERING},
    requires=["not (method is kr.ClusterRanking.hull)", "t > 0", "len(knees) >= 2",
              "forall2(0, len(points), lambda a, b: points[a][0] < points[b][0])",
              "forall2(0, len(knees), lambda a, b: knees[a] < knees[b])",
              "forall(0, len(knees), lambda k: 1 <= knees[k] and knees[k] <= len(points) - 2)"],      # interior knees
    ensures=[
        "len(result) == (%s)[len(knees)-1] + 1" % LAB,                                                 # one kept knee per cluster
        "forall(0, len(result), lambda j: 0 <= SEL[j] and SEL[j] < len(knees) and result[j] == knees[SEL[j]] and (%s)[SEL[j]] == j)" % LAB,
        "forall2(0, len(result), lambda a, b: result[a] < result[b])",                                  # strictly increasing subset
    ],
    after={"current_cluster": ["0 <= (%s)[i] and (%s)[i] < len(knees) and clusters[(%s)[i]] == i" % (WIT, WIT, WIT),
                               "(clusters == i)[(%s)[i]]" % WIT, "len(current_cluster) >= 1"],
           # the kept member of a multi-member cluster has the maximum smoothed ranking score of its cluster (skipped on the
           # single-member path, where idx does not exist)
           "best_knee": ["forall(0, len(current_cluster), lambda q: (%s)[q] <= (%s)[idx])" % (SMR, SMR),
                         "best_knee == current_cluster[idx]"]},
    loops={0: dict(
        inv=[
            "len(clusters) == len(knees) and max_cluster == clusters[len(knees)-1]",
            "forall(0, len(knees), lambda p: clusters[p] == (%s)[p])" % LAB,
            "len(filtered_knees) == _it0",
            "forall(0, _it0, lambda j: 0 <= SEL[j] and SEL[j] < len(knees) and filtered_knees[j] == knees[SEL[j]] and clusters[SEL[j]] == j)",
            "forall2(0, _it0, lambda a, b: filtered_knees[a] < filtered_knees[b])",
        ],
        ghost_end=["SEL = store(SEL, i, _last_mask_index[ite(len(current_cluster) > 1, idx, 0)])"],
        hints=[
            "best_knee == knees[_last_mask_index[ite(len(current_cluster) > 1, idx, 0)]]",
            "clusters[_last_mask_index[ite(len(current_cluster) > 1, idx, 0)]] == i",
        ],
    )},
)


# ------------------------------------------------------------------ C12: corner variant
CSCORE = "CS(K)"
CS_DEF = {"CS": (["k"], "Real", "0.5 * ((points[k][0] - points[k-1][0]) * (points[k][1] - points[k+1][1]))")}
C["kneeliverse.postprocessing.rank_corners_triangle"] = dict(
    mode="R", owner="C12", params={"points": PTS, "knees": "Seq[Int]"}, returns="Seq[Real]", locals={"ranks": "Seq[Real]"}, spec_funs=CS_DEF,
    requires=["forall(0, len(knees), lambda k: 1 <= knees[k] and knees[k] <= len(points) - 2)"],
    ensures=["len(result) == len(knees)",
             "forall(0, len(knees), lambda q: result[q] == %s)" % CSCORE.replace("K", "knees[q]")],
    loops={0: dict(inv=["len(ranks) == _it0", "forall(0, _it0, lambda q: ranks[q] == %s)" % CSCORE.replace("K", "knees[q]")])},
)
C["kneeliverse.postprocessing.filter_clusters_corners"] = dict(
    mode="R", owner="C12", spec_funs=CS_DEF,
    params={"points": PTS, "knees": "Seq[Int]", "clustering": "Fn", "t": "Real"}, returns="Seq[Int]",
    locals={"filtered_knees": "Seq[Int]"},
    ghost_vars={"SEL": "Seq[Int]"},
    callables={"clustering": CLUSTERING},
    requires=["t > 0", "len(knees) >= 2",
              "forall2(0, len(points), lambda a, b: points[a][0] < points[b][0])",
              "forall2(0, len(knees), lambda a, b: knees[a] < knees[b])",
              "forall(0, len(knees), lambda k: 1 <= knees[k] and knees[k] <= len(points) - 2)"],
    ensures=[
        "len(result) == (%s)[len(knees)-1] + 1" % LAB,
        "forall(0, len(result), lambda j: 0 <= SEL[j] and SEL[j] < len(knees) and result[j] == knees[SEL[j]] and (%s)[SEL[j]] == j)" % LAB,
        "forall2(0, len(result), lambda a, b: result[a] < result[b])",
        # the kept knee maximises the corner-triangle score over its cluster
        "forall(0, len(result), lambda j: forall(0, len(knees), lambda q: implies((%s)[q] == j, %s <= %s)))"
        % (LAB, CSCORE.replace("K", "knees[q]"), CSCORE.replace("K", "result[j]")),
    ],
    after={"current_cluster": ["0 <= (%s)[i] and (%s)[i] < len(knees) and clusters[(%s)[i]] == i" % (WIT, WIT, WIT),
                               "(clusters == i)[(%s)[i]]" % WIT, "len(current_cluster) >= 1"],
           "best_knee": ["best_knee == current_cluster[idx]",
                         "forall(0, len(current_cluster), lambda r: %s <= %s)" % (CSCORE.replace("K", "current_cluster[r]"), CSCORE.replace("K", "best_knee")),
                         "forall(0, len(knees), lambda q: implies(clusters[q] == i, (clusters == i)[q]))",
                         "forall(0, len(knees), lambda q: implies(clusters[q] == i, 0 <= _last_mask_pos[q] and _last_mask_pos[q] < len(current_cluster) "
                         "and current_cluster[_last_mask_pos[q]] == knees[q]))",
                         "forall(0, len(knees), lambda q: implies(clusters[q] == i, CS(current_cluster[_last_mask_pos[q]]) <= CS(best_knee)))",
                         "forall(0, len(knees), lambda q: implies(clusters[q] == i, %s <= %s))" % (CSCORE.replace("K", "knees[q]"), CSCORE.replace("K", "best_knee"))]},
    loops={0: dict(
        inv=[
            "len(clusters) == len(knees) and max_cluster == clusters[len(knees)-1]",
            "forall(0, len(knees), lambda p: clusters[p] == (%s)[p])" % LAB,
            "len(filtered_knees) == _it0",
            "forall(0, _it0, lambda j: 0 <= SEL[j] and SEL[j] < len(knees) and filtered_knees[j] == knees[SEL[j]] and clusters[SEL[j]] == j)",
            "forall2(0, _it0, lambda a, b: filtered_knees[a] < filtered_knees[b])",
            "forall(0, _it0, lambda j: forall(0, len(knees), lambda q: implies(clusters[q] == j, %s <= %s)))"
            % (CSCORE.replace("K", "knees[q]"), CSCORE.replace("K", "filtered_knees[j]")),
        ],
        ghost_end=["SEL = store(SEL, i, _last_mask_index[idx])"],
        hints=["best_knee == knees[_last_mask_index[idx]]", "clusters[_last_mask_index[idx]] == i"],
    )},
)


# ================================================================== C14: even-point insertion
VALID = lambda s, n="len(%s)": "forall(0, %s, lambda k: 0 <= %s[k] and %s[k] < len(points))" % ((n % s) if "%s" in n else n, s, s)
NONFLAT = ["exists(0, len(points), lambda a: exists(0, len(points), lambda b: points[a][0] != points[b][0]))",
           "exists(0, len(points), lambda a: exists(0, len(points), lambda b: points[a][1] != points[b][1]))"]
CAND = lambda c: "0 <= %s[0] and %s[0] < %s[1] and %s[1] < len(points) and absr(points[%s[1]][0] - points[%s[0]][0]) / dx > 2.0 * tx" % ((c,) * 6)
C["kneeliverse.postprocessing.add_points_even_knees"] = dict(
    mode="R", owner="C14", merge_seqs=True,
    params={"points": PTS, "knees": "Seq[Int]", "tx": "Real", "ty": "Real", "extremes": "Bool"}, returns="Seq[Int]",
    locals={"new_knees": "Seq[Int]", "candidates": "Seq[Tup[Int,Int]]"},
    requires=["len(points) >= 2", "len(knees) >= 1", "tx > 0 and ty > 0", VALID("knees"),
              "forall2(0, len(knees), lambda a, b: knees[a] < knees[b])"] + NONFLAT,
    ensures=[VALID("result"),
             "forall2(0, len(result), lambda a, b: result[a] < result[b])",
             "forall2(0, len(result), lambda a, b: %s >= %s)" % (H("result[a]"), H("result[b]"))],
    post_hints=["forall2(0, len(knees_idx), lambda a, b: knees_idx[a] != knees_idx[b])",
                "forall2(0, len(knees_idx), lambda a, b: knees_idx[a] < knees_idx[b])",
                VALID("knees_idx")],
    loops={
        0: dict(inv=["forall(0, len(candidates), lambda c: %s)" % CAND("candidates[c]"), "len(new_knees) == 0"]),
        1: dict(inv=[VALID("new_knees")]),
        2: dict(inv=[VALID("new_knees"), "number_points >= 1 and inc >= 0 and inc * number_points <= right - left",
                     "0 <= left and right < len(points)", "idx - left == _it2 * inc", "_it2 <= number_points"],
                hints=["_it2 * inc <= number_points * inc"]),
    },
)

from contracts.rdp import C as _RDP
C["kneeliverse.rdp.mapping"] = _RDP["kneeliverse.rdp.mapping"]
PR = lambda e: "points[reduced[%s]]" % e
C["kneeliverse.postprocessing.add_points_even"] = dict(
    mode="R", owner="C14", merge_seqs=True,
    params={"points": PTS, "reduced": "Seq[Int]", "knees": "Seq[Int]", "removed": "Seq[Tup[Real,Real]]", "tx": "Real", "ty": "Real", "extremes": "Bool"},
    returns="Seq[Int]",
    locals={"new_knees": "Seq[Int]", "candidates": "Seq[Int]"},
    requires=["len(points) >= 2", "tx > 0 and ty > 0",
              "len(reduced) >= 2", "reduced[0] == 0", "reduced[len(reduced)-1] == len(points) - 1",
              "forall2(0, len(reduced), lambda a, b: reduced[a] < reduced[b])",
              "len(removed) == len(reduced) - 1",
              "forall(0, len(removed), lambda k: removed[k][0] == reduced[k] and removed[k][1] == reduced[k+1] - reduced[k] - 1)",
              "forall(0, len(knees), lambda k: 0 <= knees[k] and knees[k] < len(reduced))",
              "forall2(0, len(knees), lambda a, b: knees[a] <= knees[b])"] + NONFLAT,
    ensures=[VALID("result"),
             "forall2(0, len(result), lambda a, b: result[a] < result[b])",
             "forall2(0, len(result), lambda a, b: %s >= %s)" % (H("result[a]"), H("result[b]"))],
    post_hints=["forall2(0, len(knees_idx), lambda a, b: knees_idx[a] < knees_idx[b])", VALID("knees_idx")],
    after={"number_points": ["0 <= left and left < right and right < len(points)",
                             "absr(points[right][0] - points[left][0]) / dx > 2.0 * tx"]},
    loops={
        0: dict(inv=["len(candidates) == 2 * NC", "0 <= NC and NC <= _it0",
                     "forall(0, NC, lambda c: 0 <= candidates[2*c] and candidates[2*c+1] == candidates[2*c] + 1 and candidates[2*c+1] < len(reduced))",
                     "forall(0, NC - 1, lambda c: candidates[2*c+1] <= candidates[2*c+2])",
                     "implies(NC > 0, candidates[2*NC-1] <= _it0)",
                     # the same facts by plain position (what rdp.mapping requires of its index argument)
                     "forall(0, len(candidates), lambda k: 0 <= candidates[k] and candidates[k] < len(reduced) and candidates[k] <= _it0)",
                     "forall2(0, len(candidates), lambda a, b: candidates[a] <= candidates[b])",
                     "forall(0, NC, lambda c: absr(%s[0] - %s[0]) / dx > 2.0 * tx)" % (PR("candidates[2*c+1]"), PR("candidates[2*c]")),
                     ],
                ghost_end=["NC = ite(len(candidates) == len(_h_candidates) + 2, NC + 1, NC)"]),
        1: dict(inv=[VALID("new_knees")]),
        2: dict(inv=[VALID("new_knees"), "number_points >= 1 and inc >= 0 and inc * number_points <= right - left",
                     "0 <= left and right < len(points)", "idx - left == _it2 * inc", "_it2 <= number_points"],
                hints=["_it2 * inc <= number_points * inc"]),
    },
    ghost_vars={"NC": "Int"}, ghost_init=["NC = 0"],
)


# ------------------------------------------------------------------ C12: the ranking score itself = fit quality x relative height
# (definitional contract of smooth_ranking; call sites use the summary above).  The fit quality of a segment is lf.r2 of its slice
# (uninterpreted here: FIT is the ghost array of the values the body appends); the relative height is |peak - y| over the sum of those
# distances in the cluster, peak = the highest member.
C["kneeliverse.linear_fit.r2"] = dict(
    mode="U", summary=True, params={"x": "Seq[Real]", "y": "Seq[Real]"}, returns="Real",
    requires=[], returns_expr="uf('R2fit', 'Real', x, y)", ensures=[])
_YK = "points[knees[%s]][1]"
_W = "absr(peak_ - %s)" % (_YK % "k")
C["kneeliverse.knee_ranking.smooth_ranking#def"] = dict(
    function="kneeliverse.knee_ranking.smooth_ranking", mode="R", owner="C12",
    params={"points": PTS, "knees": "Seq[Int]", "t": RANKING}, returns="Seq[Real]",
    locals={"fit": "Seq[Real]", "weights": "Seq[Real]"},
    ghost_vars={"FIT": "Seq[Real]"},
    requires=["len(knees) >= 1", "forall(0, len(knees), lambda k: 0 <= knees[k] and knees[k] < len(points))",
              "forall2(0, len(knees), lambda a, b: knees[a] < knees[b])"],
    ensures=["len(result) == len(knees)",
             # peak_ = the highest member of the cluster
             "forall(0, len(knees), lambda k: %s <= peak)" % (_YK % "k"),
             "exists(0, len(knees), lambda k: %s == peak)" % (_YK % "k"),
             "forall(0, len(knees), lambda k: result[k] == FIT[k] * ite(Sum(0, len(knees), lambda j: absr(peak - %s)) != 0, absr(peak - %s) / Sum(0, len(knees), lambda j: absr(peak - %s)), absr(peak - %s)))"
             % (_YK % "j", _YK % "k", _YK % "j", _YK % "k")],
    loops={0: dict(inv=["len(fit) == _it0 and len(weights) == _it0",
                        "forall(0, _it0, lambda k: fit[k] == FIT[k] and weights[k] == absr(peak - %s))" % (_YK % "k")],
                   ghost_end=["FIT = store(FIT, _it0 - 1, r2)"])},
)
