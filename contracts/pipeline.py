"""C08: the composition lemma over the component contracts (parametric in the simplifier, the detector and the filters).

Hypotheses are exactly the postconditions proved (or, where stated, only bounded-checked) for the components:
  Post_S  (C01 + C07)  reduced is strictly increasing from 0 to n-1                      [proved for every simplifier]
  Post_D  (C02)        K0 is strictly increasing within [0, m-2], m = |reduced|             [proved for multi_knee + 4 detectors; Kneedle bounded]
  Post_W  (C13)        K1 is an order-preserving subsequence of K0 with non-increasing heights   [proved]
  Post_C  (C13)        K2 is an order-preserving subsequence of K1                          [proved]
  Post_F  (C12)        K3 is an order-preserving subsequence of K2                          [bounded only - hypothesis of this lemma]
  Post_M  (C07)        out[j] == reduced[K3[j]]                                              [proved; needs K3 ascending within range - shown here]
An order-preserving subsequence B of A is given by a strictly increasing index map I with B[j] == A[I[j]] (the ghost maps of the
filter contracts)."""
C = {}
LEMMAS = {}
S = "Seq[Int]"


def subseq(B, A, I):
    return ["len(%s) <= len(%s)" % (B, A),
            "forall(0, len(%s), lambda j: 0 <= %s[j] and %s[j] < len(%s) and %s[j] == %s[%s[j]])" % (B, I, I, A, B, A, I),
            "forall2(0, len(%s), lambda a, b: %s[a] < %s[b])" % (B, I, I)]


H = lambda e: "points[reduced[%s]][1]" % e      # height of a reduced-space index (pr = points[reduced])
LEMMAS["pipeline_composition"] = dict(
    context="kneeliverse.rdp.mapping", owner="C08", mode="R",
    vars={"points": "Seq[Tup[Real,Real]]", "reduced": S, "K0": S, "K1": S, "K2": S, "K3": S, "I1": S, "I2": S, "I3": S, "out": S},
    hyps=["len(points) >= 2", "len(reduced) >= 2", "reduced[0] == 0 and reduced[len(reduced)-1] == len(points) - 1",
          "forall2(0, len(reduced), lambda a, b: reduced[a] < reduced[b])",
          "forall2(0, len(K0), lambda a, b: K0[a] < K0[b])", "forall(0, len(K0), lambda k: 0 <= K0[k] and K0[k] <= len(reduced) - 2)"]
         + subseq("K1", "K0", "I1") + ["forall2(0, len(K1), lambda a, b: %s >= %s)" % (H("K1[a]"), H("K1[b]"))]
         + subseq("K2", "K1", "I2") + subseq("K3", "K2", "I3")
         + ["len(out) == len(K3)", "forall(0, len(out), lambda j: out[j] == reduced[K3[j]])"],
    steps=[
        # subsequences of a strictly increasing in-range list are strictly increasing and in range
        "forall2(0, len(K1), lambda a, b: K1[a] < K1[b])", "forall(0, len(K1), lambda k: 0 <= K1[k] and K1[k] <= len(reduced) - 2)",
        "forall2(0, len(K2), lambda a, b: K2[a] < K2[b])", "forall(0, len(K2), lambda k: 0 <= K2[k] and K2[k] <= len(reduced) - 2)",
        "forall2(0, len(K3), lambda a, b: K3[a] < K3[b])", "forall(0, len(K3), lambda k: 0 <= K3[k] and K3[k] <= len(reduced) - 2)",
        # (so the precondition of mapping - ascending positions within range - holds)
        # heights stay non-increasing along subsequences
        "forall2(0, len(K2), lambda a, b: %s >= %s)" % (H("K2[a]"), H("K2[b]")),
        "forall2(0, len(K3), lambda a, b: %s >= %s)" % (H("K3[a]"), H("K3[b]")),
    ],
    goal=[
        "forall2(0, len(out), lambda a, b: out[a] < out[b])",                                        # strictly increasing original-curve indices
        "forall(0, len(out), lambda j: 0 <= out[j] and out[j] < len(points))",
        "forall(0, len(out), lambda j: exists(0, len(reduced), lambda m: reduced[m] == out[j]))",    # each is a retained simplification point
        "forall(0, len(out), lambda j: points[out[j]][0] == points[reduced[K3[j]]][0] and points[out[j]][1] == points[reduced[K3[j]]][1])",
        "forall2(0, len(out), lambda a, b: points[out[a]][1] >= points[out[b]][1])",                 # heights non-increasing left to right
    ],
)
