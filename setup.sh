#!/bin/sh
# offline setup: nothing to build - kvc runs under the pre-installed tooling interpreter (python3-vt: z3-solver)
# and the bounded layers under the repository's interpreter (/venv/bin/python). Sanity-check both.
set -e
cd "$(dirname "$0")"
python3-vt -c "import z3; assert z3.get_version_string().startswith('5.')"
/venv/bin/python -c "import numpy, kneeliverse"
mkdir -p out evidence
echo setup ok
